(* StopProofs.v -- C04, unbounded: once the reader has been told to stop it hands over at most one more piece,
   whatever the size of the torrent -- under every schedule, hasher count, input and clock.  (With
   TerminationProofs.v: the call can then be completed in a number of steps that does not depend on the items
   still unread.) *)
From Coq Require Import Lia ZifyBool.
From Torf Require Import Base Pipeline PipelineProofs FlowProofs ThreadProofs DrainProofs ReaderDoneProofs LastCallVerdict TerminationProofs.
Open Scope Z_scope.

Definition putting (s : state) : Z :=
  match s_rst s, s_rpc s with TRunning, RPut _ => 1 | _, _ => 0 end.

Definition phi (s : state) : Z := s_ridx s + putting s.

Lemma reader_next_phi s todo idx : phi (reader_next s todo idx) = idx.
Proof. unfold phi, putting, reader_next. destruct todo as [|[h|es| | |e] rest]; cbn; lia. Qed.

Lemma step_reader_phi s : s_rst s = TRunning -> s_stop s = true -> phi (step_reader s) <= phi s.
Proof.
  intros Hrun Hs. unfold step_reader. destruct (s_rpc s) eqn:Erpc.
  - rewrite Hs. unfold phi, putting. cbn. rewrite Hrun, Erpc. lia.
  - rewrite reader_next_phi. unfold phi, putting. rewrite Hrun, Erpc. lia.
  - unfold phi at 2. unfold putting. rewrite Hrun, Erpc.
    destruct (_ >=? _); [destruct (negb _)|]; rewrite ?reader_next_phi; try lia. unfold phi, putting. cbn. lia.
  - unfold phi, putting. cbn. rewrite Hrun, Erpc. lia.
  - lia.
Qed.

Lemma phi_keep s s' : s_ridx s' = s_ridx s -> s_rst s' = s_rst s -> s_rpc s' = s_rpc s -> phi s' = phi s.
Proof. unfold phi, putting. intros -> -> ->. reflexivity. Qed.

Lemma step_phi c s t a inc : reach c s -> enabled c s t a = true -> s_stop s = true ->
  phi (step c s t a inc) <= phi s /\ s_stop (step c s t a inc) = true.
Proof.
  intros Hr Hen Hs. pose proof (flow_invariant c s Hr) as Hf.
  unfold step. destruct (enabled_tid c s t a Hen) as [[-> Hin]|[[-> Hin]|[[-> Hin]|Ht]]].
  - cbn [Z.eqb Pos.eqb]. unfold step_main. destruct (s_mpc s) eqn:Empc;
      try (split; [rewrite (phi_keep s); [lia|reflexivity..]|exact Hs]).
    + destruct (refused c t).
      * destruct ((t =? 1) || (t =? 2) || (t =? 3)); [split; [rewrite (phi_keep s); [lia|reflexivity..]|exact Hs]|].
        destruct (next_to_start c t); (split; [rewrite (phi_keep s); [lia|reflexivity..]|exact Hs]).
      * assert (Hst : phi (start_thread s t) <= phi s /\ s_stop (start_thread s t) = true).
        { unfold start_thread. destruct (t =? 1) eqn:E1.
          - assert (t = 1) as -> by lia. destruct (fi_start c s Hf 1 (or_intror Empc)) as [_ Hnew]. destruct (fi_new c s Hf (Hnew eq_refl)) as [Er _].
            rewrite reader_next_phi, reader_next_stop. split; [unfold phi, putting; rewrite Er, (Hnew eq_refl); lia|exact Hs].
          - destruct (t =? 2); (split; [rewrite (phi_keep s); [lia|reflexivity..]|exact Hs]). }
        destruct Hst as [H1 H2]. destruct (next_to_start c t); (split; [rewrite (phi_keep (start_thread s t)); [exact H1|reflexivity..]|exact H2]).
    + destruct (s_hq s) as [|[|idx h exc] r]; [split; [lia|exact Hs]|split; [rewrite (phi_keep s); [lia|reflexivity..]|exact Hs]|].
      cbn [set_hq s_seen]. destruct (existsb _ _); (split; [rewrite (phi_keep s); [lia|reflexivity..]|exact Hs]).
    + destruct (collect_item_fview c (set_now s (s_now s + inc)) idx h exc) as [E _]. injection E as E1 _ E3 E4 _ _ _ _ _.
      split; [rewrite (phi_keep s); [lia|assumption..]|rewrite collect_item_stop; exact Hs].
    + rewrite Hs. destruct a0; (split; [rewrite (phi_keep s); [lia|reflexivity..]|exact Hs]).
    + destruct a0; (split; [rewrite (phi_keep s); [lia|reflexivity..]|reflexivity]).
    + destruct (is_alive s 1); (split; [rewrite (phi_keep s); [lia|reflexivity..]|exact Hs]).
    + destruct (is_alive s t); (split; [rewrite (phi_keep s); [lia|reflexivity..]|exact Hs]).
    + destruct (is_alive s 2); [split; [rewrite (phi_keep s); [lia|reflexivity..]|exact Hs]|].
      unfold finish. destruct o; (split; [rewrite (phi_keep s); [lia|reflexivity..]|exact Hs]).
    + unfold finish. destruct o; (split; [rewrite (phi_keep s); [lia|reflexivity..]|exact Hs]).
    + split; [lia|exact Hs].
  - cbn [Z.eqb Pos.eqb]. assert (s_rst s = TRunning) as Hrun.
    { unfold reader_enabled in Hin. destruct (s_rst s); [destruct Hin|reflexivity|destruct Hin]. }
    assert (Hg : forall s0, s_rst s0 = TRunning -> s_stop s0 = true -> phi s0 = phi s -> phi (step_reader s0) <= phi s /\ s_stop (step_reader s0) = true).
    { intros s0 A1 A2 A3. split; [rewrite <- A3; apply step_reader_phi; assumption|rewrite step_reader_rd'; exact A2]. }
    destruct (s_rpc s) eqn:Erpc; apply Hg; try assumption; try reflexivity.
  - cbn [Z.eqb Pos.eqb]. destruct (step_janitor_rd s a) as (A1 & A2 & _ & A4 & A5). split; [rewrite (phi_keep s); [lia|assumption..]|rewrite A5; exact Hs].
  - replace (t =? 0) with false by lia. replace (t =? 1) with false by lia. replace (t =? 2) with false by lia.
    destruct (step_hasher_rd s (hasher_index t) a) as (A1 & A2 & _ & A4 & A5). split; [rewrite (phi_keep s); [lia|assumption..]|rewrite A5; exact Hs].
Qed.

(* Once told to stop, the reader hands over at most one more piece -- in every continuation of the run. *)
Theorem at_most_one_piece_after_stop c s s' :
  reach c s -> s_stop s = true -> steps c s s' -> s_ridx s' <= s_ridx s + 1 /\ s_stop s' = true.
Proof.
  intros Hr Hs Hst.
  assert (H : phi s' <= phi s /\ s_stop s' = true).
  { induction Hst as [s|s t a inc s' Hen Hinc _ IH]; [split; [lia|exact Hs]|].
    destruct (step_phi c s t a inc Hr Hen Hs) as [H1 H2]. destruct (IH (r_step c s t a inc Hr Hen Hinc) H2) as [H3 H4]. split; [lia|exact H4]. }
  destruct H as [H1 H2]. split; [|exact H2]. unfold phi, putting in H1. destruct (s_rst s'), (s_rpc s'); destruct (s_rst s), (s_rpc s); lia.
Qed.
