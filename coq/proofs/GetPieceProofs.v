(* GetPieceProofs.v -- C11: on intact content, get_piece(i) returns exactly the
   bytes [i*L, min((i+1)*L, size)) of the concatenated files, for every layout of
   positive-size files, every piece length and every state of the handle table. *)
From Coq Require Import Lia ZifyBool.
From Torf Require Import Base Extracted Geometry Stream GeometryProofs ChunkProofs IterProofs.
Open Scope Z_scope.
Ltac Zify.zify_post_hook ::= Z.to_euclidean_division_equations.

Section GP.
Variable d : disk.

Lemma stream_cons f r : stream_of d (f :: r) = content_of d f ++ stream_of d r.
Proof. reflexivity. Qed.

Lemma intact_content f : (exists c, disk_get d (fid f) = Some c /\ zlen c = fsize f) ->
  disk_get d (fid f) = Some (content_of d f) /\ zlen (content_of d f) = fsize f.
Proof. intros (c & Hc & Hl). unfold content_of. rewrite Hc. split; [reflexivity|exact Hl]. Qed.

Lemma stream_len fs : intact d fs -> zlen (stream_of d fs) = total_size fs.
Proof.
  induction 1 as [|f r Hf Hr IH]; [reflexivity|]. destruct (intact_content f Hf) as [_ Hl].
  rewrite stream_cons. unfold zlen in *. rewrite app_length. unfold total_size in *. cbn [map sumZ]. lia.
Qed.

(* ---- sequential reads ---- *)
Lemma firstn_app_Z {X} (n : Z) (a b : list X) :
  0 <= n -> firstn (Z.to_nat n) (a ++ b) = firstn (Z.to_nat n) a ++ firstn (Z.to_nat (n - zlen (firstn (Z.to_nat n) a))) b.
Proof.
  intros Hn. rewrite firstn_app. f_equal. unfold zlen. rewrite firstn_length.
  destruct (Nat.le_ge_cases (Z.to_nat n) (length a)) as [H|H].
  - rewrite Nat.min_l by exact H. replace (Z.to_nat n - length a)%nat with 0%nat by lia. replace (Z.to_nat (n - Z.of_nat (Z.to_nat n))) with 0%nat by lia. reflexivity.
  - rewrite Nat.min_r by exact H. f_equal. lia.
Qed.

Lemma gp_read_intact : forall rel h seek n acc,
  intact d rel -> 0 <= seek -> 0 <= n ->
  (match rel with f :: _ => seek <= fsize f | [] => True end) ->
  fst (gp_read d h rel seek n acc) = Ok (acc ++ firstn (Z.to_nat n) (skipn (Z.to_nat seek) (stream_of d rel))).
Proof.
  induction rel as [|f r IH]; intros h seek n acc Hint Hs Hn Hfirst.
  - cbn. rewrite skipn_nil, firstn_nil, app_nil_r. reflexivity.
  - inversion Hint as [|? ? Hf Hr]; subst. destruct (intact_content f Hf) as [Hc Hl].
    cbn [gp_read]. destruct (get_open_file_present d h (fid f) _ Hc) as (h' & ->). rewrite Hc.
    replace (negb (zlen (content_of d f) =? fsize f)) with false by lia. replace (seek <? 0) with false by lia.
    assert (Hrem : 0 <= n - zlen (read_at (content_of d f) seek n)) by (unfold read_at, zlen; rewrite firstn_length; lia).
    assert (Hnext : match r with g :: _ => 0 <= fsize g | [] => True end).
    { destruct r as [|g r']; [exact I|]. inversion Hr as [|? ? Hg _]; subst. destruct (intact_content g Hg) as [_ Hlg]. unfold zlen in Hlg. lia. }
    rewrite (IH h' 0 _ _ Hr (Z.le_refl 0) Hrem Hnext).
    f_equal. rewrite <- app_assoc. f_equal. rewrite stream_cons. unfold read_at. cbn [skipn Z.to_nat].
    rewrite skipn_app. replace (Z.to_nat seek - length (content_of d f))%nat with 0%nat by (unfold zlen in Hl; lia). cbn [skipn].
    apply (eq_sym (firstn_app_Z n _ _ Hn)).
Qed.

(* ---- the files selected for a byte range and the stream ---- *)
(* all files start at or after a: the selected files carry the first m bytes as long as m stays within [.., b] *)
Lemma spec_stream_tail : forall fs pos a b m,
  allpos fs -> intact d fs -> a <= pos -> (m <= 0 \/ m <= b - pos + 1) ->
  firstn (Z.to_nat m) (stream_of d (spec_files_in_range fs pos a b)) = firstn (Z.to_nat m) (stream_of d fs).
Proof.
  induction fs as [|f r IH]; intros pos a b m Hp Hint Ha Hm; [reflexivity|].
  destruct (Z_le_gt_dec m 0) as [Hm00|Hm00]; [replace (Z.to_nat m) with 0%nat by lia; reflexivity|].
  assert (Hm' : m <= b - pos + 1) by lia. clear Hm.
  inversion Hp as [|? ? Hf Hpr]; subst. inversion Hint as [|? ? Hif Hir]; subst. destruct (intact_content f Hif) as [_ Hl].
  cbn [spec_files_in_range]. unfold overlaps. replace (0 <? fsize f) with true by lia. replace (a <? pos + fsize f) with true by lia. cbn [andb].
  destruct (pos <=? b) eqn:Eb.
  - cbn [andb app]. rewrite !stream_cons. destruct (Z_le_gt_dec 0 m) as [Hm0|Hm0].
    + rewrite !(firstn_app_Z m) by exact Hm0. f_equal. apply IH; try assumption; [lia|].
      unfold zlen. rewrite firstn_length. unfold zlen in Hl.
      destruct (Nat.le_ge_cases (Z.to_nat m) (length (content_of d f))) as [H|H]; [rewrite Nat.min_l by exact H; left; lia|rewrite Nat.min_r by exact H; right; lia].
    + replace (Z.to_nat m) with 0%nat by lia. reflexivity.
  - replace (Z.to_nat m) with 0%nat by lia. reflexivity.
Qed.

Lemma spec_total_le : forall fs pos a b, allpos fs -> total_size (spec_files_in_range fs pos a b) <= total_size fs.
Proof.
  induction fs as [|g r IH]; intros pos a b Hp; [cbn; lia|]. inversion Hp; subst. cbn [spec_files_in_range].
  specialize (IH (pos + fsize g) a b H2). unfold total_size in *.
  destruct (overlaps pos (fsize g) a b); cbn [app map sumZ]; lia.
Qed.

(* the file holding byte a is the first selected one; reading from its offset gives the bytes from a on *)
Lemma spec_stream_head : forall fs pos a b n,
  allpos fs -> intact d fs -> pos <= a -> a <= b -> a < pos + total_size fs -> n <= b - a + 1 ->
  exists k f rest, nth_error fs k = Some f /\ pos + offset_of fs k <= a < pos + offset_of fs k + fsize f /\
    spec_files_in_range fs pos a b = f :: rest /\ intact d (f :: rest) /\
    (rest <> [] -> pos + offset_of fs k + fsize f <= b) /\
    total_size (f :: rest) <= total_size fs - offset_of fs k /\
    firstn (Z.to_nat n) (skipn (Z.to_nat (a - (pos + offset_of fs k))) (stream_of d (f :: rest)))
    = firstn (Z.to_nat n) (skipn (Z.to_nat (a - pos)) (stream_of d fs)).
Proof.
  induction fs as [|f r IH]; intros pos a b n Hp Hint Hpa Hab Hlt Hn.
  - unfold total_size in Hlt. cbn in Hlt. lia.
  - inversion Hp as [|? ? Hf Hpr]; subst. inversion Hint as [|? ? Hif Hir]; subst. destruct (intact_content f Hif) as [_ Hl].
    cbn [spec_files_in_range]. unfold overlaps. replace (0 <? fsize f) with true by lia. replace (pos <=? b) with true by lia. cbn [andb].
    destruct (a <? pos + fsize f) eqn:Ea.
    + (* this file holds byte a *)
      exists 0%nat, f, (spec_files_in_range r (pos + fsize f) a b). rewrite offset_of_0, Z.add_0_r. cbn [app nth_error].
      assert (Hsub : intact d (spec_files_in_range r (pos + fsize f) a b)).
      { unfold intact in *. rewrite Forall_forall in *. intros g Hg. apply Hir. apply spec_files_in_range_In in Hg as (k & Hk & _). eapply nth_error_In; exact Hk. }
      repeat split; try lia; try reflexivity.
      * constructor; assumption.
      * intros Hne. destruct r as [|g r']; [exfalso; apply Hne; reflexivity|].
        destruct (pos + fsize f <=? b) eqn:E; [lia|]. exfalso. apply Hne.
        apply spec_files_in_range_nohit; [apply allpos_nonneg; exact Hpr|left; lia].
      * pose proof (spec_total_le r (pos + fsize f) a b Hpr) as Ht. unfold total_size in *. cbn [map sumZ]. lia.
      * rewrite !stream_cons. rewrite !skipn_app.
        replace (Z.to_nat (a - pos) - length (content_of d f))%nat with 0%nat by (unfold zlen in Hl; lia). cbn [skipn].
        destruct (Z_le_gt_dec 0 n) as [Hn0|Hn0]; [|replace (Z.to_nat n) with 0%nat by lia; reflexivity].
        rewrite !(firstn_app_Z n) by exact Hn0. f_equal. apply spec_stream_tail; try assumption; [lia|].
        unfold zlen. rewrite firstn_length, skipn_length. unfold zlen in Hl.
        destruct (Nat.le_ge_cases (Z.to_nat n) (length (content_of d f) - Z.to_nat (a - pos))) as [H|H]; [rewrite Nat.min_l by exact H; left; lia|rewrite Nat.min_r by exact H; right; lia].
    + (* the file lies before byte a *)
      cbn [app]. unfold total_size in Hlt. cbn [map sumZ] in Hlt.
      destruct (IH (pos + fsize f) a b n Hpr Hir ltac:(lia) Hab ltac:(unfold total_size; lia) Hn) as (k & g & rest & Hk & Hrange & Hspec & Hi & Hrest & Htot & Hbytes).
      exists (S k), g, rest. rewrite offset_of_S. cbn [nth_error].
      replace (pos + (fsize f + offset_of r k)) with (pos + fsize f + offset_of r k) by lia.
      repeat split; try assumption; try lia.
      { unfold total_size in *. cbn [map sumZ] in *. lia. }
      rewrite Hbytes. rewrite stream_cons, skipn_app.
      rewrite (skipn_all2 (content_of d f)) by (unfold zlen in Hl; lia). cbn [app].
      f_equal. f_equal. unfold zlen in Hl. lia.
Qed.

Lemma offset_next_le fs : forall k' k f', nonneg fs -> (k' < k)%nat -> nth_error fs k' = Some f' ->
  offset_of fs k' + fsize f' <= offset_of fs k.
Proof.
  induction fs as [|g r IH]; intros k' k f' Hnn Hlt Hk'; [destruct k'; discriminate|].
  inversion Hnn as [|? ? Hg Hr]; subst. destruct k as [|k]; [lia|]. rewrite offset_of_S. destruct k' as [|k'].
  - cbn in Hk'. injection Hk' as <-. rewrite offset_of_0. pose proof (offset_of_nonneg r k Hr). lia.
  - rewrite offset_of_S. cbn in Hk'. specialize (IH k' k f' Hr ltac:(lia) Hk'). lia.
Qed.

(* ---- get_piece ---- *)
Theorem get_piece_intact fs L i h :
  allpos fs -> NoDup fs -> intact d fs -> 0 < L -> 0 <= i -> i * L < total_size fs ->
  fst (get_piece d h fs L i) = Ok (firstn (Z.to_nat L) (skipn (Z.to_nat (i * L)) (stream_of d fs))).
Proof.
  intros Hp Hnd Hint HL Hi Hlt. unfold get_piece, gp_plan.
  unfold pyfloordiv, ex_gp_max_num, ex_gp_max_den, ex_gp_out_of_range, ex_gp_min, ex_gp_first_byte, ex_gp_last_byte.
  replace (L =? 0) with false by lia. cbn [bind].
  set (size := total_size fs) in *.
  replace (negb ((0 <=? i) && (i <=? (size - 1) / L))) with false by (assert (i <= (size - 1) / L) by (apply Z.div_le_lower_bound; lia); lia).
  set (fb := i * L). set (lb := Z.min (fb + L - 1) (size - 1)).
  assert (Hfl : fb <= lb) by (unfold lb; lia).
  rewrite (files_at_byte_range_spec fs fb lb Hp Hfl). cbn [bind].
  destruct (spec_stream_head fs 0 fb lb (lb - fb + 1) Hp Hint ltac:(unfold fb; lia) Hfl ltac:(unfold size in Hlt; lia) ltac:(lia))
    as (k & f & rest & Hk & Hrange & Hspec & Hirel & Hrest & Htot & Hbytes).
  rewrite Hspec. rewrite Z.add_0_l in *. rewrite Z.sub_0_r in Hbytes.
  pose proof (file_position_found fs k f Hnd Hk) as Hfp.
  assert (Hseek : (match rest with
                   | [] => do fpos <- file_position fs f; Ok (ex_gp_seek_single fb fpos)
                   | _ :: _ => do f0 <- file_at_position fs fb; do fpos <- file_position fs f0; Ok (ex_gp_seek_multi fpos (fsize f0) L)
                   end) = Ok (fb - offset_of fs k)).
  { destruct rest as [|g rest'].
    - rewrite Hfp. reflexivity.
    - destruct (file_at_position_in_range fs fb (allpos_nonneg fs Hp) ltac:(unfold fb, size in *; lia)) as (k' & f' & Hk' & Hfa & Hr').
      assert (k' = k).
      { (* byte fb belongs to one file only *)
        destruct (Nat.lt_trichotomy k' k) as [Hlt'|[E|Hgt]]; [|exact E|]; exfalso.
        - pose proof (offset_next_le fs k' k f' (allpos_nonneg fs Hp) Hlt' Hk'). lia.
        - pose proof (offset_next_le fs k k' f (allpos_nonneg fs Hp) Hgt Hk). lia. }
      subst k'. rewrite Hk in Hk'. injection Hk' as <-. rewrite Hfa. cbn [bind]. rewrite Hfp. cbn [bind]. unfold ex_gp_seek_multi.
      f_equal. specialize (Hrest ltac:(discriminate)).
      assert (He : (offset_of fs k + fsize f) mod L = offset_of fs k + fsize f - i * L).
      { symmetry. apply (Z.mod_unique_pos _ L i); unfold lb, fb in *; lia. }
      rewrite He. unfold fb. lia. }
  replace (match f :: rest with
           | [f0] => do fpos <- file_position fs f0; Ok (ex_gp_seek_single fb fpos)
           | _ => do f0 <- file_at_position fs fb; do fpos <- file_position fs f0; Ok (ex_gp_seek_multi fpos (fsize f0) L)
           end) with (Ok (fb - offset_of fs k) : res Z) by (rewrite <- Hseek; destruct rest; reflexivity).
  cbn [bind].
  rewrite (surjective_pairing (gp_read d h (f :: rest) (fb - offset_of fs k) L [])).
  rewrite (gp_read_intact (f :: rest) h (fb - offset_of fs k) L [] Hirel) by lia. cbn [app].
  (* the bytes read from the selected files are the bytes of the piece *)
  assert (Hlen_stream : zlen (stream_of d fs) = size) by (apply stream_len; exact Hint).
  assert (Hpiece : firstn (Z.to_nat L) (skipn (Z.to_nat (fb - offset_of fs k)) (stream_of d (f :: rest)))
                   = firstn (Z.to_nat L) (skipn (Z.to_nat fb) (stream_of d fs))).
  { destruct (Z.eq_dec lb (fb + L - 1)) as [E|E].
    - replace (lb - fb + 1) with L in Hbytes by lia. exact Hbytes.
    - (* the last piece: the stream ends before fb + L *)
      assert (Hlb : lb = size - 1) by (unfold lb in *; lia).
      assert (Hshort : forall X : bytes, zlen X <= lb - fb + 1 -> firstn (Z.to_nat L) X = firstn (Z.to_nat (lb - fb + 1)) X).
      { intros X HX. rewrite !firstn_all2; [reflexivity| |]; unfold zlen in HX; lia. }
      rewrite (Hshort (skipn (Z.to_nat fb) (stream_of d fs))) by (unfold zlen in *; rewrite skipn_length; lia).
      rewrite <- Hbytes. apply Hshort.
      pose proof (stream_len (f :: rest) Hirel) as Hl2. unfold zlen in *. rewrite skipn_length.
      lia. }
  rewrite Hpiece.
  (* the length check *)
  set (piece := firstn (Z.to_nat L) (skipn (Z.to_nat fb) (stream_of d fs))).
  assert (Hplen : zlen piece = Z.min L (size - fb)).
  { unfold piece, zlen in *. rewrite firstn_length, skipn_length. lia. }
  unfold ex_gp_is_last, ex_gp_exp_last. fold size.
  destruct (lb =? size - 1) eqn:El.
  - destruct (size mod L =? 0) eqn:Em.
    + replace (zlen piece =? L) with true; [reflexivity|]. unfold lb, fb in *.
      pose proof (Z.div_mod size L ltac:(lia)) as Hdm. set (q := size / L) in *. set (r := size mod L) in *.
      assert (r = 0) by lia. assert (i < q) by nia. assert (L * (q - i) >= L) by nia. lia.
    + replace (zlen piece =? size mod L) with true; [reflexivity|]. unfold lb, fb in *.
      pose proof (Z.div_mod size L ltac:(lia)) as Hdm. pose proof (Z.mod_pos_bound size L HL) as Hmb.
      set (q := size / L) in *. set (r := size mod L) in *.
      assert (q = i) by nia. subst q. lia.
  - replace (zlen piece =? L) with true; [reflexivity|]. unfold lb in *. lia.
Qed.
End GP.
