(* ChunkProofs.v -- facts about cutting a byte string into L-sized chunks, and
   the carry-over reader of iter_pieces on intact content (C01). *)
From Coq Require Import Lia ZifyBool.
From Torf Require Import Base Extracted Geometry Stream GeometryProofs.
Open Scope Z_scope.

Section Chunks.
Variable L : Z.
Hypothesis HL : 0 < L.

Let n := Z.to_nat L.

Lemma n_pos : (0 < n)%nat.
Proof. unfold n. lia. Qed.

Lemma chunk_fuel_irrel : forall f1 f2 u, (length u <= f1)%nat -> (length u <= f2)%nat ->
  chunk_fuel f1 L u = chunk_fuel f2 L u.
Proof.
  induction f1 as [|f1 IH]; intros f2 u H1 H2.
  - destruct u; [destruct f2; reflexivity|cbn in H1; lia].
  - destruct f2 as [|f2]; [destruct u; [reflexivity|cbn in H2; lia]|].
    destruct u as [|c u]; [reflexivity|]. cbn [chunk_fuel]. f_equal.
    pose proof n_pos. fold n.
    apply IH; rewrite skipn_length; cbn [length] in *; lia.
Qed.

Lemma chunk_fuel_enough : forall fuel s, (length s <= fuel)%nat ->
  chunk_fuel fuel L s = chunk_fuel (length s) L s.
Proof. intros fuel s H. apply chunk_fuel_irrel; lia. Qed.

Lemma chunks_nil : chunks L [] = [].
Proof. reflexivity. Qed.

Lemma chunks_unfold s : s <> [] ->
  chunks L s = firstn n s :: chunks L (skipn n s).
Proof.
  intros Hs. unfold chunks. destruct s as [|b s]; [contradiction|].
  cbn [length chunk_fuel]. fold n. f_equal.
  apply chunk_fuel_enough. rewrite skipn_length. cbn [length]. pose proof n_pos. lia.
Qed.

Definition fulls (s : bytes) : list bytes := filter (fun p : bytes => zlen p =? L) (chunks L s).
Definition rem (s : bytes) : bytes := last (filter (fun p : bytes => negb (zlen p =? L)) (chunks L s)) [].

Lemma zlen_firstn_full (s : bytes) : L <= zlen s -> zlen (firstn n s) = L.
Proof. intros H. unfold zlen in *. rewrite firstn_length. unfold n. lia. Qed.

Lemma short_chunks s : s <> [] -> zlen s < L -> chunks L s = [s].
Proof.
  intros Hs Hl. rewrite chunks_unfold by assumption.
  rewrite firstn_all2 by (unfold zlen, n in *; lia).
  rewrite skipn_all2 by (unfold zlen, n in *; lia). reflexivity.
Qed.

Lemma fulls_short s : zlen s < L -> fulls s = [].
Proof.
  intros Hl. unfold fulls. destruct s as [|b s]; [reflexivity|].
  rewrite short_chunks by (congruence || assumption). cbn [filter].
  replace (zlen (b :: s) =? L) with false by lia. reflexivity.
Qed.

Lemma rem_short s : zlen s < L -> rem s = s.
Proof.
  intros Hl. unfold rem. destruct s as [|b s]; [reflexivity|].
  rewrite short_chunks by (congruence || assumption). cbn [filter].
  replace (zlen (b :: s) =? L) with false by lia. reflexivity.
Qed.

Lemma fulls_long s : L <= zlen s -> fulls s = firstn n s :: fulls (skipn n s).
Proof.
  intros Hl. unfold fulls. rewrite chunks_unfold by (intros ->; unfold zlen in Hl; cbn in Hl; lia).
  cbn [filter]. rewrite zlen_firstn_full by assumption. rewrite Z.eqb_refl. reflexivity.
Qed.

Lemma rem_long s : L <= zlen s -> rem s = rem (skipn n s).
Proof.
  intros Hl. unfold rem. rewrite chunks_unfold by (intros ->; unfold zlen in Hl; cbn in Hl; lia).
  cbn [filter]. rewrite zlen_firstn_full by assumption. rewrite Z.eqb_refl. reflexivity.
Qed.

Lemma len_ind (P : bytes -> Prop) :
  (forall s, (forall t, (length t < length s)%nat -> P t) -> P s) -> forall s, P s.
Proof.
  intros H s. remember (length s) as k eqn:E. revert s E.
  induction k as [k IH] using lt_wf_ind. intros s ->. apply H. intros t Ht. eapply IH; eauto.
Qed.

Lemma rem_lt s : zlen (rem s) < L.
Proof.
  pattern s; apply len_ind; clear s; intros s IH.
  destruct (Z_lt_dec (zlen s) L) as [Hs|Hs]; [rewrite rem_short; assumption|].
  rewrite rem_long by lia. apply IH. rewrite skipn_length. unfold zlen, n in *. lia.
Qed.

(* the key compositional fact *)
Lemma chunks_app s u : chunks L (s ++ u) = fulls s ++ chunks L (rem s ++ u).
Proof.
  pattern s; apply len_ind; clear s; intros s IH.
  destruct (Z_lt_dec (zlen s) L) as [Hs|Hs].
  - rewrite fulls_short, rem_short by assumption. reflexivity.
  - assert (s ++ u <> []) as Hne.
    { intros E. apply app_eq_nil in E as [-> _]. unfold zlen in Hs; cbn in Hs; lia. }
    rewrite chunks_unfold by assumption.
    assert (n <= length s)%nat as Hn by (unfold zlen, n in *; lia).
    rewrite firstn_app, skipn_app.
    replace (n - length s)%nat with 0%nat by lia. cbn [firstn skipn]. rewrite app_nil_r.
    rewrite fulls_long, rem_long by lia. cbn [app]. f_equal.
    apply IH. rewrite skipn_length. pose proof n_pos. lia.
Qed.

Lemma chunks_split s :
  chunks L s = fulls s ++ (match rem s with [] => [] | r => [r] end).
Proof.
  rewrite <- (app_nil_r s) at 1. rewrite chunks_app, app_nil_r.
  pose proof (rem_lt s) as Hr. destruct (rem s) as [|b r] eqn:E; [reflexivity|].
  rewrite short_chunks; [reflexivity|congruence|assumption].
Qed.

Lemma filter_full_fulls s : filter (fun p : bytes => zlen p =? L) (fulls s) = fulls s.
Proof.
  pattern s; apply len_ind; clear s; intros s IH.
  destruct (Z_lt_dec (zlen s) L) as [Hs|Hs]; [rewrite fulls_short by assumption; reflexivity|].
  rewrite fulls_long by lia. cbn [filter]. rewrite zlen_firstn_full by lia. rewrite Z.eqb_refl.
  f_equal. apply IH. rewrite skipn_length. pose proof n_pos. unfold zlen, n in *. lia.
Qed.

Lemma fulls_app s u : fulls (s ++ u) = fulls s ++ fulls (rem s ++ u).
Proof.
  unfold fulls at 1. rewrite chunks_app, filter_app, filter_full_fulls. reflexivity.
Qed.

Lemma filter_short_fulls s : filter (fun p => negb (zlen p =? L)) (fulls s) = [].
Proof.
  pattern s; apply len_ind; clear s; intros s IH.
  destruct (Z_lt_dec (zlen s) L) as [Hs|Hs]; [rewrite fulls_short by assumption; reflexivity|].
  rewrite fulls_long by lia. cbn [filter]. rewrite zlen_firstn_full by lia. rewrite Z.eqb_refl.
  cbn [negb]. apply IH. rewrite skipn_length. pose proof n_pos. unfold zlen, n in *. lia.
Qed.

Lemma rem_app s u : rem (s ++ u) = rem (rem s ++ u).
Proof.
  unfold rem at 1. rewrite chunks_app, filter_app, filter_short_fulls. reflexivity.
Qed.

Lemma chunks_concat_fulls_rem s : concat (fulls s) ++ rem s = s.
Proof.
  pattern s; apply len_ind; clear s; intros s IH.
  destruct (Z_lt_dec (zlen s) L) as [Hs|Hs].
  - rewrite fulls_short, rem_short by assumption. reflexivity.
  - rewrite fulls_long, rem_long by lia. cbn [concat]. rewrite <- app_assoc.
    rewrite IH by (rewrite skipn_length; pose proof n_pos; unfold zlen, n in *; lia).
    apply firstn_skipn.
Qed.

Theorem chunks_concat s : concat (chunks L s) = s.
Proof.
  rewrite chunks_split, concat_app.
  rewrite <- (chunks_concat_fulls_rem s) at 3. f_equal.
  destruct (rem s); [reflexivity|]. cbn [concat]. apply app_nil_r.
Qed.

Lemma fulls_length s : zlen (fulls s) = zlen s / L.
Proof.
  pattern s; apply len_ind; clear s; intros s IH.
  destruct (Z_lt_dec (zlen s) L) as [Hs|Hs].
  - rewrite fulls_short by assumption. unfold zlen in *. cbn [length]. nia.
  - rewrite fulls_long by lia. unfold zlen in *. cbn [length].
    assert (Z.of_nat (length (fulls (skipn n s))) = Z.of_nat (length (skipn n s)) / L) as E.
    { apply IH. rewrite skipn_length. pose proof n_pos. unfold n in *. lia. }
    rewrite Nat2Z.inj_succ, E, skipn_length. unfold n.
    replace (Z.of_nat (length s - Z.to_nat L)) with (Z.of_nat (length s) - L) by lia.
    nia.
Qed.

Lemma rem_length s : zlen (rem s) = zlen s mod L.
Proof.
  pose proof (chunks_concat_fulls_rem s) as E.
  pose proof (fulls_length s) as F. pose proof (rem_lt s) as R.
  assert (zlen (concat (fulls s)) = L * zlen (fulls s)) as C.
  { clear. unfold fulls. induction (chunks L s) as [|c r IH]; [unfold zlen; cbn; lia|].
    cbn [filter]. destruct (zlen c =? L) eqn:Ec; [|exact IH].
    unfold zlen in *. cbn [concat length]. rewrite app_length. lia. }
  assert (zlen s = zlen (concat (fulls s)) + zlen (rem s)) as S.
  { rewrite <- E at 1. unfold zlen. rewrite app_length. lia. }
  assert (0 <= zlen (rem s)) by (unfold zlen; lia). nia.
Qed.

Theorem chunks_count s : zlen (chunks L s) = cdiv (zlen s) L.
Proof.
  rewrite chunks_split. unfold zlen at 1. rewrite app_length.
  pose proof (fulls_length s) as F. pose proof (rem_length s) as R. unfold zlen in F.
  assert (0 <= zlen s) by (unfold zlen; lia). unfold cdiv.
  destruct (rem s) as [|b r] eqn:E.
  - cbn [length]. unfold zlen in R at 1. cbn [length] in R. unfold zlen in *. nia.
  - cbn [length]. unfold zlen in R at 1. cbn [length] in R. unfold zlen in *. nia.
Qed.

Theorem chunks_shape s c : In c (chunks L s) -> 0 < zlen c <= L.
Proof.
  rewrite chunks_split, in_app_iff. intros [H|H].
  - unfold fulls in H. apply filter_In in H as [_ H]. lia.
  - pose proof (rem_lt s). destruct (rem s) as [|b r] eqn:E; [destruct H|].
    destruct H as [<-|[]]. unfold zlen in *. cbn [length] in *. lia.
Qed.

Lemma pieces_from_handle_eq t c :
  zlen t < L -> pieces_from_handle L t c = chunks L (t ++ c).
Proof.
  intros Ht. unfold pieces_from_handle. destruct t as [|b t]; [reflexivity|].
  remember (b :: t) as p eqn:Ep.
  assert (p ++ c <> []) as Hne by (subst p; discriminate).
  rewrite (chunks_unfold (p ++ c) Hne).
  assert (Z.to_nat (L - zlen p) = (n - length p)%nat) as En by (unfold zlen, n in *; lia).
  rewrite En, firstn_app, skipn_app.
  rewrite (firstn_all2 p) by (unfold zlen, n in *; lia).
  rewrite (skipn_all2 p) by (unfold zlen, n in *; lia). reflexivity.
Qed.

End Chunks.
