(* C01Pipeline.v -- C01: the stored piece string is the SHA-1 of the consecutive chunks of the stream (pipeline part). *)
From Torf Require Import Base Extracted Geometry Stream ChunkProofs IterProofs Pipeline PipelineProofs FlowProofs DrainProofs CompleteProofs.
Open Scope Z_scope.

Lemma pipeline_reference : forall (hid : bytes -> Z) d L fs c s,
  yielded (cf_items c) = map (fun p => RPiece (hid p)) (chunks L (stream_of d fs)) ->
  cf_verify c = None -> cf_total c = Pipeline.zlen (chunks L (stream_of d fs)) ->
  reach c s -> s_result s = Some ResTrue ->
  sorted_hashes (s_hashes s) = map hid (chunks L (stream_of d fs)).
Proof.
  intros hid d L fs c s HY Hv Ht Hr Hres. apply (true_means_reference c s (map hid (chunks L (stream_of d fs))) Hr Hv); [|unfold Pipeline.zlen in *; rewrite map_length; exact Ht|exact Hres].
  rewrite HY, map_map. reflexivity.
Qed.

Lemma unstopped_run_reference : forall (hid : bytes -> Z) d L fs c s r,
  (1 <= cf_hashers c)%nat ->
  yielded (cf_items c) = map (fun p => RPiece (hid p)) (chunks L (stream_of d fs)) ->
  cf_verify c = None -> cf_total c = Pipeline.zlen (chunks L (stream_of d fs)) ->
  reach c s -> s_result s = Some r -> verdict r -> s_stop s = false ->
  r = ResTrue /\ sorted_hashes (s_hashes s) = map hid (chunks L (stream_of d fs)).
Proof.
  intros hid d L fs c s r Hn HY Hv Ht Hr Hres Hvd Hs.
  apply (unstopped_generate_stores_reference c s r (map hid (chunks L (stream_of d fs))) Hn Hr Hv); try assumption.
  - rewrite HY, map_map. reflexivity.
  - unfold Pipeline.zlen in *. rewrite map_length. exact Ht.
Qed.
