(* AttrProofs.v -- C09: piece hashes never outlive the layout / piece length they were
   computed for; the piece length stays a multiple of 16 KiB within the bounds. *)
From Coq Require Import Lia ZifyBool.
From Torf Require Import Base Extracted Attr.
Open Scope Z_scope.
Ltac Zify.zify_post_hook ::= Z.to_euclidean_division_equations.

Definition mult16k (z : Z) : Prop := 0 < z /\ z mod 16384 = 0.

Lemma div16_iff z : ex_is_divisible_by_16_kib z = true <-> mult16k z.
Proof. unfold ex_is_divisible_by_16_kib, mult16k. destruct (z <=? 0) eqn:E; split; intros H; try discriminate; lia. Qed.

(* ---- calculate_piece_size ---- *)
Definition is_pow2 (p : Z) : Prop := exists k, 0 <= k /\ p = 2 ^ k.

Lemma pow2_cover_pow2 fuel : forall p size mp, is_pow2 p -> is_pow2 (pow2_cover fuel p size mp).
Proof.
  induction fuel as [|f IH]; intros p size mp Hp; cbn [pow2_cover]; [exact Hp|].
  destruct (p * mp >=? size); [exact Hp|]. apply IH. destruct Hp as (k & Hk & ->).
  exists (k + 1). split; [lia|]. rewrite Z.pow_add_r by lia. lia.
Qed.

Lemma pow2_mult16k p : is_pow2 p -> 16384 <= p -> p mod 16384 = 0.
Proof.
  intros (k & Hk & ->) H. assert (14 <= k) as Hk14.
  { destruct (Z_lt_dec k 14) as [Hl|]; [|lia]. exfalso.
    assert (2 ^ k < 2 ^ 14) by (apply Z.pow_lt_mono_r; lia). change (2 ^ 14) with 16384 in *. lia. }
  replace k with (14 + (k - 14)) by lia. rewrite Z.pow_add_r by lia. change (2 ^ 14) with 16384.
  rewrite Z.mul_comm. apply Z_mod_mult.
Qed.

(* the calculated piece size is a multiple of 16 KiB within [lo, hi] *)
Theorem calculate_piece_size_ok size lo hi :
  mult16k lo -> mult16k hi -> lo <= hi ->
  mult16k (calculate_piece_size size lo hi) /\ lo <= calculate_piece_size size lo hi <= hi.
Proof.
  intros [Hlo0 Hlom] [Hhi0 Hhim] Hle. unfold calculate_piece_size, ex_cps_clamp.
  set (p := if size <=? _ then 1 else pow2_cover 200 1 size _).
  assert (is_pow2 p) as Hp.
  { unfold p. destruct (size <=? _); [exists 0; split; [lia|reflexivity]|].
    apply pow2_cover_pow2. exists 0. split; [lia|reflexivity]. }
  split; [|lia].
  destruct (Z_le_dec p lo) as [H1|H1]; [replace (Z.min (Z.max p lo) hi) with lo by lia; split; assumption|].
  destruct (Z_le_dec p hi) as [H2|H2]; [|replace (Z.min (Z.max p lo) hi) with hi by lia; split; assumption].
  replace (Z.min (Z.max p lo) hi) with p by lia. split; [lia|]. apply pow2_mult16k; [exact Hp|].
  assert (16384 <= lo) by lia. lia.
Qed.

(* ---- the invariant ---- *)
Definition AInv (s : ast) : Prop :=
  (forall l p, a_pieces s = Some (l, p) -> l = a_layout s /\ a_plen s = Some p /\ 0 < a_size s) /\
  (forall L, a_plen s = Some L -> mult16k L /\ a_pmin s <= L <= a_pmax s) /\
  mult16k (a_pmin s) /\ mult16k (a_pmax s) /\ a_pmin s <= a_pmax s.

Lemma AInv_init : AInv ainit.
Proof.
  unfold AInv, ainit, mult16k. cbn. repeat split; try discriminate; try (vm_compute; reflexivity); try (vm_compute; discriminate).
Qed.

Lemma set_piece_size_val_inv s v r s' :
  AInv s -> set_piece_size_val s v = (r, s') -> AInv s'.
Proof.
  intros (Hp & Hl & Hmin & Hmax & Hle) H. unfold set_piece_size_val in H.
  destruct (ex_is_divisible_by_16_kib v) eqn:Ed; cbn [negb] in H; [|inversion H; subst; exact (conj Hp (conj Hl (conj Hmin (conj Hmax Hle))))].
  destruct ((a_pmin s <=? v) && (v <=? a_pmax s)) eqn:Eb; cbn [negb] in H; [|inversion H; subst; exact (conj Hp (conj Hl (conj Hmin (conj Hmax Hle))))].
  inversion H; subst. clear H. apply div16_iff in Ed. unfold AInv. cbn [a_pieces a_layout a_plen a_pmin a_pmax a_size].
  split; [|split; [|exact (conj Hmin (conj Hmax Hle))]].
  - intros l p Hpc. destruct (a_plen s) as [old|] eqn:Eo; [|discriminate].
    destruct (old =? v) eqn:Eq; [|discriminate]. destruct (Hp l p Hpc) as (A & B & C). split; [exact A|]. split; [|exact C].
    assert (old = v) by lia. congruence.
  - intros L HL. inversion HL; subst. split; [exact Ed|lia].
Qed.

Lemma set_piece_size_inv s v r s' :
  AInv s -> set_piece_size s v = (r, s') -> AInv s'.
Proof.
  intros HI H. destruct v as [v|]; cbn [set_piece_size] in H; [eapply set_piece_size_val_inv; eauto|].
  destruct (a_size s <=? 0) eqn:Es; [|eapply set_piece_size_val_inv; eauto].
  inversion H; subst. destruct HI as (Hp & Hl & Hrest). unfold AInv. cbn.
  split; [|split; [intros L HL; discriminate|exact Hrest]].
  intros l p Hpc. destruct (Hp l p Hpc) as (A & B & C). lia.
Qed.

(* the explicit setter re-establishes the piece-length clause, whatever the previous piece length *)
Definition AInvWeak (s : ast) : Prop :=
  (forall l p, a_pieces s = Some (l, p) -> l = a_layout s /\ a_plen s = Some p /\ 0 < a_size s) /\
  mult16k (a_pmin s) /\ mult16k (a_pmax s) /\ a_pmin s <= a_pmax s.

Lemma set_piece_size_val_ok s v :
  AInvWeak s -> mult16k v -> a_pmin s <= v <= a_pmax s ->
  exists s', set_piece_size_val s v = (Ok tt, s') /\ AInv s' /\
             a_pmin s' = a_pmin s /\ a_pmax s' = a_pmax s.
Proof.
  intros (Hp & Hmin & Hmax & Hle) Hv Hb. unfold set_piece_size_val.
  replace (ex_is_divisible_by_16_kib v) with true by (symmetry; apply div16_iff; exact Hv).
  replace ((a_pmin s <=? v) && (v <=? a_pmax s)) with true by lia. cbn [negb].
  eexists. split; [reflexivity|]. split; [|split; reflexivity].
  unfold AInv. cbn [a_pieces a_layout a_plen a_pmin a_pmax a_size].
  split; [|split; [|exact (conj Hmin (conj Hmax Hle))]].
  - intros l p Hpc. destruct (a_plen s) as [old|] eqn:Eo; [|discriminate].
    destruct (old =? v) eqn:Eq; [|discriminate]. destruct (Hp l p Hpc) as (A & B & C). split; [exact A|]. split; [|exact C].
    assert (old = v) by lia. congruence.
  - intros L HL. inversion HL; subst. split; [exact Hv|lia].
Qed.

Lemma mult16k_max a b : mult16k a -> mult16k b -> mult16k (Z.max a b).
Proof. intros Ha Hb. destruct (Z.max_spec a b) as [[_ ->]|[_ ->]]; assumption. Qed.
Lemma mult16k_min a b : mult16k a -> mult16k b -> mult16k (Z.min a b).
Proof. intros Ha Hb. destruct (Z.min_spec a b) as [[_ ->]|[_ ->]]; assumption. Qed.

(* bounds reset to the class defaults (value None) are covered only when the default is
   compatible with the other bound and the current piece length -- see C09_reset_refuted *)
Definition guard (s : ast) (o : aop) : Prop :=
  match o with
  | ASetMin None => ex_piece_size_min_default <= a_pmax s /\
                    (forall L, a_plen s = Some L -> ex_piece_size_min_default <= L)
  | ASetMax None => a_pmin s <= ex_piece_size_max_default /\
                    (forall L, a_plen s = Some L -> L <= ex_piece_size_max_default)
  | _ => True
  end.

Lemma defaults_mult16k : mult16k ex_piece_size_min_default /\ mult16k ex_piece_size_max_default.
Proof. unfold mult16k. split; split; vm_compute; reflexivity. Qed.

Theorem astep_inv s o : AInv s -> guard s o -> AInv (snd (astep s o)).
Proof.
  intros HI Hg. destruct o as [size id ex|v|[v|]|[v|]| |]; cbn [astep].
  - (* _set_files *)
    match goal with |- AInv (snd (set_piece_size ?s1 None)) => destruct (set_piece_size s1 None) as [r s'] eqn:E end.
    cbn [snd]. eapply set_piece_size_inv; [|exact E].
    destruct HI as (Hp & Hl & Hrest). unfold AInv. cbn. split; [intros l p Hc; discriminate|]. split; [exact Hl|exact Hrest].
  - destruct (set_piece_size s v) as [r s'] eqn:E. cbn [snd]. eapply set_piece_size_inv; eauto.
  - (* min := v *)
    destruct (ex_is_divisible_by_16_kib v) eqn:Ed; cbn [negb]; [|exact HI].
    destruct (v >? a_pmax s) eqn:Eg; [exact HI|].
    apply div16_iff in Ed. destruct HI as (Hp & Hl & Hmin & Hmax & Hle).
    destruct (a_plen s) as [l|] eqn:El.
    + destruct (Hl l eq_refl) as [Hlm Hlb].
      destruct (l =? 0) eqn:E0; [destruct Hlm; lia|].
      match goal with |- AInv (snd (set_piece_size_val ?s1 ?x)) =>
        destruct (set_piece_size_val_ok s1 x) as (s' & -> & HI' & _) end; [| |cbn; lia|exact HI'].
      * unfold AInvWeak. cbn. rewrite ?El. split; [exact Hp|]. repeat split; try apply Ed; try apply Hmax; lia.
      * apply mult16k_max; assumption.
    + cbn [snd]. unfold AInv. cbn. rewrite ?El. split; [exact Hp|]. split; [intros L HL; discriminate|].
      repeat split; try apply Ed; try apply Hmax; lia.
  - (* min := default *)
    cbn [snd]. destruct HI as (Hp & Hl & Hmin & Hmax & Hle). destruct Hg as [G1 G2]. unfold AInv. cbn.
    split; [exact Hp|]. split; [|split; [apply defaults_mult16k|split; [exact Hmax|exact G1]]].
    intros L HL. destruct (Hl L HL) as [A B]. split; [exact A|]. specialize (G2 L HL). lia.
  - (* max := v *)
    destruct (ex_is_divisible_by_16_kib v) eqn:Ed; cbn [negb]; [|exact HI].
    destruct (v <? a_pmin s) eqn:Eg; [exact HI|].
    apply div16_iff in Ed. destruct HI as (Hp & Hl & Hmin & Hmax & Hle).
    destruct (a_plen s) as [l|] eqn:El.
    + destruct (Hl l eq_refl) as [Hlm Hlb].
      destruct (l =? 0) eqn:E0; [destruct Hlm; lia|].
      match goal with |- AInv (snd (set_piece_size_val ?s1 ?x)) =>
        destruct (set_piece_size_val_ok s1 x) as (s' & -> & HI' & _) end; [| |cbn; lia|exact HI'].
      * unfold AInvWeak. cbn. rewrite ?El. split; [exact Hp|]. repeat split; try apply Ed; try apply Hmin; lia.
      * apply mult16k_min; assumption.
    + cbn [snd]. unfold AInv. cbn. rewrite ?El. split; [exact Hp|]. split; [intros L HL; discriminate|].
      repeat split; try apply Ed; try apply Hmin; lia.
  - (* max := default *)
    cbn [snd]. destruct HI as (Hp & Hl & Hmin & Hmax & Hle). destruct Hg as [G1 G2]. unfold AInv. cbn.
    split; [exact Hp|]. split; [|split; [exact Hmin|split; [apply defaults_mult16k|exact G1]]].
    intros L HL. destruct (Hl L HL) as [A B]. split; [exact A|]. specialize (G2 L HL). lia.
  - (* generate *)
    destruct (a_path s); cbn [negb]; [|exact HI].
    destruct (a_size s <? 1) eqn:Es; [exact HI|].
    destruct (a_plen s) as [l|] eqn:El; [|exact HI].
    cbn [snd]. destruct HI as (Hp & Hl & Hrest). unfold AInv. cbn.
    split; [|split; [intros L HL; apply Hl; congruence|exact Hrest]].
    intros l0 p H. inversion H; subst. repeat split; lia.
  - exact HI.
Qed.

(* all histories *)
Fixpoint afinal (s : ast) (ops : list aop) : ast :=
  match ops with [] => s | o :: r => afinal (snd (astep s o)) r end.

Fixpoint guarded (s : ast) (ops : list aop) : Prop :=
  match ops with [] => True | o :: r => guard s o /\ guarded (snd (astep s o)) r end.

Theorem history_inv ops : forall s, AInv s -> guarded s ops -> AInv (afinal s ops).
Proof.
  induction ops as [|o r IH]; intros s HI Hg; [exact HI|]. destruct Hg as [G1 G2].
  cbn [afinal]. apply IH; [apply astep_inv; assumption|exact G2].
Qed.

