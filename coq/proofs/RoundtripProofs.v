(* RoundtripProofs.v -- C05 (codec layer): decoding the encoding of a canonical
   bencode value with the stack-machine decoder returns that value; hence
   re-encoding a canonical input reproduces the input bytes. *)
From Coq Require Import Lia ZifyBool.
From Torf Require Import Base Sexp Bencode BencodeProofs DecimalProofs.
Open Scope Z_scope.

(* canonical values: dict keys strictly increasing; numbers within the int<->str digit limit *)
Inductive wf : bval -> Prop :=
| wf_int z : int_ok z -> wf (BInt z)
| wf_str b : str_ok b -> wf (BStr b)
| wf_list l : Forall wf l -> wf (BList l)
| wf_dict kvs : kstrict kvs -> Forall (fun kv => str_ok (fst kv) /\ wf (snd kv)) kvs -> wf (BDict kvs).

Section Ind.
Variable P : bval -> Prop.
Hypothesis Hi : forall z, P (BInt z).
Hypothesis Hs : forall b, P (BStr b).
Hypothesis Hl : forall l, Forall P l -> P (BList l).
Hypothesis Hd : forall kvs, Forall (fun kv => P (snd kv)) kvs -> P (BDict kvs).
Fixpoint bval_ind' (v : bval) : P v :=
  match v with
  | BInt z => Hi z
  | BStr b => Hs b
  | BList l => Hl l ((fix go (l : list bval) : Forall P l :=
                        match l with
                        | [] => Forall_nil _
                        | x :: r => Forall_cons x (bval_ind' x) (go r)
                        end) l)
  | BDict kvs => Hd kvs ((fix go (l : list (bytes * bval)) : Forall (fun kv => P (snd kv)) l :=
                            match l with
                            | [] => Forall_nil _
                            | (k, x) :: r => Forall_cons (k, x) (bval_ind' x) (go r)
                            end) kvs)
  end.
End Ind.

(* ---- sorting a strictly sorted list is the identity ---- *)
Lemma insert_kv_head {V} k (v : V) l :
  kstrict ((k, v) :: l) -> insert_kv k v l = (k, v) :: l.
Proof.
  intros H. destruct l as [|[k2 v2] r]; [reflexivity|].
  inversion H; subst. cbn [insert_kv]. rewrite H2. reflexivity.
Qed.

Lemma sort_kvs_strict {V} (l : list (bytes * V)) : kstrict l -> sort_kvs l = l.
Proof.
  induction l as [|[k v] r IH]; intros H; [reflexivity|].
  cbn [sort_kvs fold_right]. fold (sort_kvs r).
  assert (kstrict r) as Hr by (inversion H; subst; [constructor|assumption]).
  rewrite IH by exact Hr. cbn [fst snd]. apply insert_kv_head. exact H.
Qed.

Lemma kstrict_map {V W} (f : V -> W) (l : list (bytes * V)) :
  kstrict l -> kstrict (map (fun kv => (fst kv, f (snd kv))) l).
Proof.
  induction 1 as [|[k v]|k1 v1 k2 v2 r H12 Hs IH]; cbn [map fst snd]; constructor; assumption.
Qed.

(* dict as the flat list of items the decoder sees *)
Fixpoint flat (kvs : list (bytes * bval)) : list bval :=
  match kvs with [] => [] | (k, v) :: r => BStr k :: v :: flat r end.

Lemma benc_dict_flat kvs : kstrict kvs ->
  benc (BDict kvs) = (100%N :: concat (map benc (flat kvs))) ++ [101%N].
Proof.
  intros H. rewrite benc_dict_eq. rewrite sort_kvs_strict by (apply kstrict_map; exact H).
  f_equal. f_equal. clear H. induction kvs as [|[k v] r IH]; [reflexivity|].
  cbn [map concat flat fst snd benc]. rewrite IH. rewrite <- app_assoc. reflexivity.
Qed.

Lemma benc_list_eq l : benc (BList l) = (108%N :: concat (map benc l)) ++ [101%N].
Proof. reflexivity. Qed.

(* ---- keys of a strictly sorted dict are pairwise different ---- *)
Lemma kstrict_head_lt {V} k (v : V) r : kstrict ((k, v) :: r) ->
  forall k' v', In (k', v') r -> bytes_ltb k k' = true.
Proof.
  revert k v. induction r as [|[k2 v2] r IH]; intros k v H k' v' Hin; [destruct Hin|].
  inversion H; subst. destruct Hin as [E|Hin]; [inversion E; subst; assumption|].
  eapply bytes_ltb_trans; [eassumption|]. eapply IH; eauto.
Qed.

Lemma dict_set_fresh k v acc :
  (forall k' v', In (k', v') acc -> bytes_eqb k' k = false) -> dict_set k v acc = acc ++ [(k, v)].
Proof.
  induction acc as [|[k1 v1] r IH]; intros H; [reflexivity|].
  cbn [dict_set app]. rewrite (H k1 v1 (or_introl eq_refl)). f_equal. apply IH.
  intros k' v' Hin. apply (H k' v'). right. exact Hin.
Qed.

Lemma bytes_eqb_true a : forall b, bytes_eqb a b = true -> a = b.
Proof.
  induction a as [|x a IH]; intros [|y b] H; cbn [bytes_eqb] in H; try discriminate; [reflexivity|].
  apply andb_true_iff in H as [H1 H2]. apply N.eqb_eq in H1. subst. f_equal. apply IH. exact H2.
Qed.

Lemma bytes_eqb_false_of_lt a b : bytes_ltb a b = true -> bytes_eqb a b = false.
Proof.
  intros H. destruct (bytes_eqb a b) eqn:E; [|reflexivity].
  apply bytes_eqb_true in E. subst. rewrite bytes_ltb_irrefl in H. discriminate.
Qed.

Lemma pairs_to_dict_flat kvs : forall acc,
  kstrict kvs ->
  (forall k v k' v', In (k, v) acc -> In (k', v') kvs -> bytes_ltb k k' = true) ->
  pairs_to_dict (flat kvs) acc = Some (acc ++ kvs).
Proof.
  induction kvs as [|[k v] r IH]; intros acc Hs Hacc; cbn [flat pairs_to_dict]; [rewrite app_nil_r; reflexivity|].
  rewrite dict_set_fresh.
  2:{ intros k' v' Hin. apply bytes_eqb_false_of_lt. eapply Hacc; [exact Hin|left; reflexivity]. }
  assert (kstrict r) as Hr by (inversion Hs; subst; [constructor|assumption]).
  rewrite IH; [rewrite <- app_assoc; reflexivity|exact Hr|].
  intros k1 v1 k' v' Hin1 Hin'. apply in_app_iff in Hin1 as [Hin1|[E|[]]].
  - eapply Hacc; [exact Hin1|right; exact Hin'].
  - inversion E; subst. eapply kstrict_head_lt; eauto.
Qed.

(* ---- popping the items of a finished list ---- *)
Lemma pop_to_starter_items (l : list bval) : forall (st : list sitem) (acc : list bval) (isd : bool),
  pop_to_starter (rev (map SVal l) ++ (if isd then SDict else SList) :: st) acc = Some (isd, l ++ acc, st).
Proof.
  induction l as [|x r IH] using rev_ind; intros st acc isd.
  - cbn [map rev app pop_to_starter]. destruct isd; reflexivity.
  - rewrite map_app, rev_app_distr. cbn [map rev app pop_to_starter]. rewrite IH, <- app_assoc. reflexivity.
Qed.

(* ---- the decoder consumes one encoded value and pushes it ---- *)
Definition consumes (v : bval) : Prop :=
  forall fuel rest st, st <> [] -> (length (benc v ++ rest) < fuel)%nat ->
  exists fuel', (length rest < fuel')%nat /\
                dec_loop fuel (benc v ++ rest) st = dec_loop fuel' rest (SVal v :: st).

Lemma consumes_items l : Forall consumes l ->
  forall fuel rest st, st <> [] -> (length (concat (map benc l) ++ rest) < fuel)%nat ->
  exists fuel', (length rest < fuel')%nat /\
                dec_loop fuel (concat (map benc l) ++ rest) st = dec_loop fuel' rest (rev (map SVal l) ++ st).
Proof.
  induction 1 as [|x r Hx Hr IH]; intros fuel rest st Hst Hf.
  - cbn [map concat app rev]. exists fuel. split; [exact Hf|reflexivity].
  - cbn [map concat] in *. rewrite <- app_assoc in *.
    destruct (Hx fuel (concat (map benc r) ++ rest) st Hst Hf) as (f1 & Hf1 & E1). rewrite E1.
    destruct (IH f1 rest (SVal x :: st) ltac:(discriminate) Hf1) as (f2 & Hf2 & E2). rewrite E2.
    exists f2. split; [exact Hf2|]. cbn [rev]. rewrite <- app_assoc. reflexivity.
Qed.

Lemma consumes_str b : str_ok b -> consumes (BStr b).
Proof.
  intros Hk fuel rest st Hst Hf. cbn [benc] in *.
  destruct (read_string_dec b rest Hk) as (c & r0 & E & Hcd & Hr0).
  rewrite E. rewrite E in Hf.
  destruct fuel as [|fuel]; [cbn in Hf; lia|]. cbn [dec_loop].
  unfold is_digit in Hcd.
  replace (c =? 101)%N with false by lia. replace (c =? 105)%N with false by lia.
  replace (c =? 100)%N with false by lia. replace (c =? 108)%N with false by lia.
  rewrite Hr0. destruct st as [|s0 st']; [contradiction|].
  exists fuel. split; [|reflexivity]. cbn [length] in Hf.
  assert (length rest <= length r0)%nat.
  { apply (f_equal (@length N)) in E. unfold benc_str in E. rewrite ?app_length in E. cbn [length] in E. rewrite ?app_length in E. lia. }
  lia.
Qed.

Lemma consumes_int z : int_ok z -> consumes (BInt z).
Proof.
  intros Hz fuel rest st Hst Hf. cbn [benc] in *. unfold benc_int in *.
  cbn [app] in *. rewrite <- app_assoc in *. cbn [app] in *.
  destruct fuel as [|fuel]; [cbn in Hf; lia|]. cbn [dec_loop].
  replace (105 =? 101)%N with false by reflexivity. replace (105 =? 105)%N with true by reflexivity.
  rewrite read_integer_dec by assumption.
  destruct st as [|s0 st']; [contradiction|].
  exists fuel. split; [|reflexivity]. cbn [length] in Hf. rewrite app_length in Hf. cbn [length] in Hf. lia.
Qed.

Lemma flat_consumes kvs :
  Forall (fun kv => wf (snd kv) -> consumes (snd kv)) kvs ->
  Forall (fun kv => str_ok (fst kv) /\ wf (snd kv)) kvs -> Forall consumes (flat kvs).
Proof.
  induction kvs as [|[k v] r IHr]; intros H1 H2; [constructor|].
  inversion H1 as [|? ? Hc Hr1]; inversion H2 as [|? ? [Hk Hv] Hr2]; subst. cbn [flat fst snd] in *.
  constructor; [apply consumes_str; exact Hk|].
  constructor; [apply Hc; exact Hv|apply IHr; assumption].
Qed.

Lemma wf_consumes v : wf v -> consumes v.
Proof.
  induction v as [z|b|l IH|kvs IH] using bval_ind'; intros Hwf; inversion Hwf; subst;
    [apply consumes_int; assumption|apply consumes_str; assumption| |]; intros fuel rest st Hst Hf.
  - (* list *)
    rewrite benc_list_eq in *. cbn [app] in *. rewrite <- app_assoc in *. cbn [app] in *.
    destruct fuel as [|fuel]; [cbn in Hf; lia|]. cbn [dec_loop].
    replace (108 =? 101)%N with false by reflexivity. replace (108 =? 105)%N with false by reflexivity.
    replace (108 =? 100)%N with false by reflexivity. replace (108 =? 108)%N with true by reflexivity.
    assert (Forall consumes l) as Hc.
    { apply Forall_forall. intros x Hx. apply (proj1 (Forall_forall _ _) IH x Hx).
      apply (proj1 (Forall_forall _ _) H0 x Hx). }
    destruct (consumes_items l Hc fuel (101%N :: rest) (SList :: st) ltac:(discriminate)) as (f1 & Hf1 & E1).
    { cbn [length] in Hf. lia. }
    rewrite E1. destruct f1 as [|f1]; [cbn in Hf1; lia|]. cbn [dec_loop]. rewrite N.eqb_refl.
    rewrite (pop_to_starter_items l st [] false). rewrite app_nil_r.
    destruct st as [|s0 st']; [contradiction|].
    exists f1. split; [cbn [length] in Hf1; lia|reflexivity].
  - (* dict *)
    rewrite benc_dict_flat in * by assumption. cbn [app] in *. rewrite <- app_assoc in *. cbn [app] in *.
    destruct fuel as [|fuel]; [cbn in Hf; lia|]. cbn [dec_loop].
    replace (100 =? 101)%N with false by reflexivity. replace (100 =? 105)%N with false by reflexivity.
    replace (100 =? 100)%N with true by reflexivity.
    assert (Forall consumes (flat kvs)) as Hc by (apply flat_consumes; assumption).
    destruct (consumes_items (flat kvs) Hc fuel (101%N :: rest) (SDict :: st) ltac:(discriminate)) as (f1 & Hf1 & E1).
    { cbn [length] in Hf. lia. }
    rewrite E1. destruct f1 as [|f1]; [cbn in Hf1; lia|]. cbn [dec_loop]. rewrite N.eqb_refl.
    rewrite (pop_to_starter_items (flat kvs) st [] true). rewrite app_nil_r.
    rewrite (pairs_to_dict_flat kvs []) by (assumption || (intros ? ? ? ? [])).
    cbn [app]. destruct st as [|s0 st']; [contradiction|].
    exists f1. split; [cbn [length] in Hf1; lia|reflexivity].
Qed.

(* ---- top level ---- *)
Theorem bdec_benc v : wf v -> bdec (benc v) = Ok v.
Proof.
  intros Hwf. unfold bdec. inversion Hwf; subst.
  - cbn [benc]. unfold benc_int. cbn [app dec_loop].
    replace (105 =? 101)%N with false by reflexivity. replace (105 =? 105)%N with true by reflexivity.
    rewrite <- (app_nil_r (dec_of_Z z ++ [101%N])), <- app_assoc. cbn [app].
    rewrite read_integer_dec by assumption. reflexivity.
  - cbn [benc]. destruct (read_string_dec b [] H) as (c & r & E & Hc & Hr). rewrite app_nil_r in E.
    rewrite E. cbn [dec_loop]. unfold is_digit in Hc.
    replace (c =? 101)%N with false by lia. replace (c =? 105)%N with false by lia.
    replace (c =? 100)%N with false by lia. replace (c =? 108)%N with false by lia.
    rewrite Hr. reflexivity.
  - rewrite benc_list_eq. cbn [app].
    set (body := concat (map benc l) ++ [101%N]).
    change (dec_loop (S (length (108%N :: body))) (108%N :: body) [] = Ok (BList l)).
    cbn [dec_loop].
    replace (108 =? 101)%N with false by reflexivity. replace (108 =? 105)%N with false by reflexivity.
    replace (108 =? 100)%N with false by reflexivity. replace (108 =? 108)%N with true by reflexivity.
    assert (Forall consumes l) as Hc.
    { apply Forall_forall. intros x Hx. apply wf_consumes. apply (proj1 (Forall_forall _ _) H x Hx). }
    destruct (consumes_items l Hc (length (108%N :: body)) [101%N] [SList] ltac:(discriminate)) as (f1 & Hf1 & E1).
    { fold body. cbn [length]. lia. }
    fold body in E1. rewrite E1. destruct f1 as [|f1]; [cbn in Hf1; lia|]. cbn [dec_loop]. rewrite N.eqb_refl.
    rewrite (pop_to_starter_items l [] [] false). rewrite app_nil_r. reflexivity.
  - rewrite benc_dict_flat by assumption. cbn [app].
    set (body := concat (map benc (flat kvs)) ++ [101%N]).
    change (dec_loop (S (length (100%N :: body))) (100%N :: body) [] = Ok (BDict kvs)).
    cbn [dec_loop].
    replace (100 =? 101)%N with false by reflexivity. replace (100 =? 105)%N with false by reflexivity.
    replace (100 =? 100)%N with true by reflexivity.
    assert (Forall consumes (flat kvs)) as Hc.
    { apply flat_consumes; [|assumption]. apply Forall_forall. intros kv _. apply wf_consumes. }
    destruct (consumes_items (flat kvs) Hc (length (100%N :: body)) [101%N] [SDict] ltac:(discriminate)) as (f1 & Hf1 & E1).
    { fold body. cbn [length]. lia. }
    fold body in E1. rewrite E1. destruct f1 as [|f1]; [cbn in Hf1; lia|]. cbn [dec_loop]. rewrite N.eqb_refl.
    rewrite (pop_to_starter_items (flat kvs) [] [] true). rewrite app_nil_r.
    rewrite (pairs_to_dict_flat kvs []) by (assumption || (intros ? ? ? ? [])). reflexivity.
Qed.

(* re-encoding what a canonical input decodes to reproduces the input *)
Corollary benc_bdec_canonical v x : wf v -> x = benc v -> exists v', bdec x = Ok v' /\ benc v' = x.
Proof. intros H ->. exists v. split; [apply bdec_benc; exact H|reflexivity]. Qed.
