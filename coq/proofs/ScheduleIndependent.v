(* ScheduleIndependent.v -- C03, the capstone: hashing is schedule-independent.  Two runs of the same hashing job over
   readable content -- under ANY two schedules, with any clocks -- that return a verdict return the same one (True) and
   have stored the same hashes: the reference hashes in piece order.  For runs without a callback or with a passive one. *)
From Coq Require Import Lia ZifyBool Permutation.
From Torf Require Import Base Pipeline PipelineProofs Tree OrderProofs FlowProofs ThreadProofs DeadlockProofs ConservationProofs ReaderDoneProofs
  DrainProofs ExceptionProofs LastCallProofs VerifyTrueProofs VerifyFalseProofs LastCallVerify CompleteProofs LastCallVerdict LastCallQuietGen
  ReportProofs NoCallbackProofs NoCallbackGenProofs VerdictIffIntact.
Open Scope Z_scope.

Theorem uncancellable_generate_outcome c s r hs :
  (1 <= cf_hashers c)%nat -> cf_verify c = None -> (cf_plan c = CbAbsent \/ cf_plan c = CbQuiet) ->
  yielded (cf_items c) = map RPiece hs -> cf_total c = zlen hs ->
  reach c s -> s_result s = Some r -> verdict r ->
  r = ResTrue /\ sorted_hashes (s_hashes s) = hs.
Proof.
  intros Hn Hv [Hp|Hp] HY Htot Hr Hres Hvd.
  - exact (generate_without_callback_never_false c Hp Hv s r hs Hn Hr HY Htot Hres Hvd).
  - destruct (quiet_never_stops_gen c s hs Hp Hv HY Hr) as [Hs _].
    exact (unstopped_generate_stores_reference c s r hs Hn Hr Hv HY Htot Hres Hvd Hs).
Qed.

Theorem generate_schedule_independent c s1 s2 r1 r2 hs :
  (1 <= cf_hashers c)%nat -> cf_verify c = None -> (cf_plan c = CbAbsent \/ cf_plan c = CbQuiet) ->
  yielded (cf_items c) = map RPiece hs -> cf_total c = zlen hs ->
  reach c s1 -> reach c s2 -> s_result s1 = Some r1 -> s_result s2 = Some r2 -> verdict r1 -> verdict r2 ->
  r1 = r2 /\ sorted_hashes (s_hashes s1) = sorted_hashes (s_hashes s2).
Proof.
  intros Hn Hv Hp HY Htot H1 H2 E1 E2 V1 V2.
  destruct (uncancellable_generate_outcome c s1 r1 hs Hn Hv Hp HY Htot H1 E1 V1) as [-> A].
  destruct (uncancellable_generate_outcome c s2 r2 hs Hn Hv Hp HY Htot H2 E2 V2) as [-> B].
  split; [reflexivity|rewrite A, B; reflexivity].
Qed.

(* ... and so is verification with a passive callback: two runs over the same content that return a verdict return the same one *)
Theorem verify_schedule_independent c s1 s2 r1 r2 expd :
  (1 <= cf_hashers c)%nat -> cf_verify c = Some expd -> cf_plan c = CbQuiet ->
  Pipeline.zlen (yielded (cf_items c)) = Pipeline.zlen expd ->
  reach c s1 -> reach c s2 -> s_result s1 = Some r1 -> s_result s2 = Some r2 -> verdict r1 -> verdict r2 -> r1 = r2.
Proof.
  intros Hn Hv Hp Hlen H1 H2 E1 E2 V1 V2.
  pose proof (verify_quiet_verdict_iff_intact c s1 expd r1 Hn H1 Hv Hp Hlen E1 V1) as I1.
  pose proof (verify_quiet_verdict_iff_intact c s2 expd r2 Hn H2 Hv Hp Hlen E2 V2) as I2.
  destruct V1 as [->| ->]; destruct V2 as [->| ->]; try reflexivity.
  - destruct I2 as [_ B]. symmetry. apply B. apply I1. reflexivity.
  - destruct I1 as [_ B]. apply B. apply I2. reflexivity.
Qed.
