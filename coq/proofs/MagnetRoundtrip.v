(* MagnetRoundtrip.v -- C13: parsing a rendered magnet gives the magnet back,
   for every well-formed magnet object. *)
From Coq Require Import Lia ZifyBool.
From Torf Require Import Base Sexp Regex Extracted UrlQuote Magnet Bencode
  RegexProofs MagnetProofs UrlQuoteProofs QueryProofs DecimalProofs.
Open Scope Z_scope.

(* ---- numbers ---- *)
Lemma parse_digits_ascii l : forall acc, ascii_digits l ->
  parse_digits l acc = Some (fold_left (fun acc c => acc * 10 + Z.of_N (c - 48)) l acc).
Proof.
  induction l as [|c r IH]; intros acc H; [reflexivity|]. inversion H as [|? ? Hc Hr]; subst.
  cbn [parse_digits fold_left]. unfold is_digit in Hc. rewrite Hc. apply IH. exact Hr.
Qed.

Lemma Z_of_dec_of_Z z : 0 <= z -> Z_of_dec (dec_of_Z z) = Some z.
Proof.
  intros Hz. unfold dec_of_Z. replace (z <? 0) with false by lia.
  destruct (digits_of_nonneg_spec z Hz) as (Ha & Hv & Hne & _ & _).
  unfold Z_of_dec. destruct (digits_of_nonneg z) as [|c r] eqn:E; [exfalso; apply Hne; reflexivity|].
  assert (c <> 45%N) by (inversion Ha as [|? ? Hc _]; subst; unfold is_digit in Hc; lia).
  destruct (N.eq_dec c 45) as [->|Hc]; [contradiction|].
  replace (match c with 45%N => _ | _ => parse_digits (c :: r) 0 end) with (parse_digits (c :: r) 0).
  - rewrite parse_digits_ascii by exact Ha. f_equal. exact Hv.
  - destruct c as [|p]; [reflexivity|]. do 6 (destruct p as [p|p|]; try reflexivity). exfalso. apply Hc. reflexivity.
Qed.

(* ---- unquoting: fuel and concatenation ---- *)
Lemma unquote_fuel_irrel b : forall f1 f2, (length b < f1)%nat -> (length b < f2)%nat ->
  unquote_plus_fuel f1 b = unquote_plus_fuel f2 b.
Proof.
  induction b as [b IH] using (well_founded_induction (Wf_nat.well_founded_ltof _ (@length N))).
  intros f1 f2 H1 H2. destruct f1 as [|f1]; [lia|]. destruct f2 as [|f2]; [lia|].
  destruct b as [|c r]; [reflexivity|]. cbn [unquote_plus_fuel]. cbn [length] in H1, H2.
  assert (Hr : forall f f', (length r < f)%nat -> (length r < f')%nat -> unquote_plus_fuel f r = unquote_plus_fuel f' r)
    by (intros; apply IH; [unfold ltof; cbn; lia|assumption|assumption]).
  destruct (c =? 43)%N; [f_equal; apply Hr; lia|].
  destruct (c =? 37)%N; [|f_equal; apply Hr; lia].
  destruct r as [|h [|l r2]].
  - f_equal. apply Hr; cbn [length] in *; lia.
  - f_equal. apply Hr; cbn [length] in *; lia.
  - destruct (unhex_any h), (unhex_any l); try (f_equal; apply Hr; cbn [length] in *; lia).
    f_equal. apply IH; [unfold ltof; cbn; lia|cbn [length] in *; lia|cbn [length] in *; lia].
Qed.

Lemma unquote_app_quote a rest : Forall is_byte a ->
  forall fuel, (length (quote_plus a ++ rest) < fuel)%nat ->
  unquote_plus_fuel fuel (quote_plus a ++ rest) = a ++ unquote_plus_fuel fuel rest.
Proof.
  induction 1 as [|c r Hc Hr IH]; intros fuel Hf; [reflexivity|].
  cbn [quote_plus] in *. unfold is_byte in Hc.
  destruct fuel as [|fuel]; [cbn in Hf; lia|].
  assert (Hirr : unquote_plus_fuel fuel rest = unquote_plus_fuel (S fuel) rest).
  { apply unquote_fuel_irrel; (destruct (is_unreserved c); [|destruct (c =? 32)%N]); cbn [app length] in Hf; rewrite app_length in Hf; lia. }
  remember (unquote_plus_fuel (S fuel) rest) as R eqn:ER.
  destruct (is_unreserved c) eqn:Eu.
  - destruct (unreserved_not_special c Eu) as (E1 & E2 & _).
    cbn [app unquote_plus_fuel]. rewrite E1, E2. f_equal.
    rewrite IH by (cbn [app length] in Hf; lia). rewrite Hirr. reflexivity.
  - destruct (c =? 32)%N eqn:Es.
    + apply N.eqb_eq in Es. subst c.
      cbn [app unquote_plus_fuel]. rewrite N.eqb_refl. f_equal.
      rewrite IH by (cbn [app length] in Hf; lia). rewrite Hirr. reflexivity.
    + cbn [app unquote_plus_fuel].
      replace (37 =? 43)%N with false by reflexivity. rewrite N.eqb_refl.
      rewrite !unhex_hexdig by lia. f_equal; [lia|].
      rewrite IH by (cbn [app length] in Hf; lia). rewrite Hirr. reflexivity.
Qed.

(* the keyword field: keywords are quoted one by one and joined with '+' *)
Lemma unquote_join_plus kts : Forall (Forall is_byte) kts ->
  forall fuel, (length (join_with 43%N (map quote_plus kts)) < fuel)%nat ->
  unquote_plus_fuel fuel (join_with 43%N (map quote_plus kts)) = join_with 32%N kts.
Proof.
  induction 1 as [|k r Hk Hr IH]; intros fuel Hf; [destruct fuel; reflexivity|].
  destruct r as [|k2 r'].
  - cbn [map join_with] in *. apply unquote_quote; assumption.
  - cbn [map join_with] in *. rewrite unquote_app_quote by assumption. f_equal.
    destruct fuel as [|fuel]; [lia|]. cbn [unquote_plus_fuel]. rewrite N.eqb_refl. f_equal.
    rewrite <- (IH fuel); [reflexivity|]. rewrite app_length in Hf. cbn [length] in Hf. cbn [map join_with]. lia.
Qed.

Lemma unquote_plus_join kts : Forall (Forall is_byte) kts ->
  unquote_plus (join_with 43%N (map quote_plus kts)) = join_with 32%N kts.
Proof. intros H. unfold unquote_plus. apply unquote_join_plus; [exact H|lia]. Qed.

(* ---- keywords: splitting at white space ---- *)
Definition word (k : bytes) : Prop := k <> [] /\ Forall (fun c => is_space c = false) k.

Lemma split_ws_word k : forall rest cur, Forall (fun c => is_space c = false) k ->
  split_ws (k ++ rest) cur = split_ws rest (rev k ++ cur).
Proof.
  induction k as [|c r IH]; intros rest cur H; [reflexivity|]. inversion H as [|? ? Hc Hr]; subst.
  cbn [app split_ws]. rewrite Hc. rewrite IH by exact Hr. cbn [rev]. rewrite <- app_assoc. reflexivity.
Qed.

Lemma split_ws_join kts : Forall word kts -> kts <> [] -> split_ws (join_with 32%N kts) [] = kts.
Proof.
  induction 1 as [|k r [Hne Hk] Hr IH]; intros Hn; [exfalso; apply Hn; reflexivity|].
  destruct r as [|k2 r'].
  - cbn [join_with]. rewrite <- (app_nil_r k) at 1. rewrite split_ws_word by exact Hk. cbn [split_ws].
    rewrite app_nil_r. destruct (rev k) eqn:E; [exfalso; apply Hne; rewrite <- (rev_involutive k), E; reflexivity|]. rewrite <- E, rev_involutive. reflexivity.
  - cbn [join_with]. rewrite split_ws_word by exact Hk. cbn [split_ws]. replace (is_space 32) with true by reflexivity.
    rewrite app_nil_r. destruct (rev k) eqn:E; [exfalso; apply Hne; rewrite <- (rev_involutive k), E; reflexivity|]. rewrite <- E, rev_involutive.
    f_equal. apply IH. discriminate.
Qed.

(* ---- URLs and lists ---- *)
Section Url.
Variable is_url : bytes -> bool.

Definition url_ok (u : bytes) : Prop := is_url u = true /\ ~ In 32%N u.

Lemma map_no_space u : ~ In 32%N u -> map (fun c => if (c =? 32)%N then 43%N else c) u = u.
Proof.
  induction u as [|c r IH]; intros H; [reflexivity|]. cbn [map].
  destruct (c =? 32)%N eqn:E; [exfalso; apply H; left; lia|]. f_equal. apply IH. intros Hi. apply H. right. exact Hi.
Qed.

Lemma make_url_ok u : url_ok u -> make_url is_url u = Ok u.
Proof. intros [H1 H2]. unfold make_url. rewrite H1, map_no_space by exact H2. reflexivity. Qed.

Lemma mapM_make_url l : Forall url_ok l -> mapM (make_url is_url) l = Ok l.
Proof. induction 1 as [|u r Hu Hr IH]; [reflexivity|]. cbn [mapM]. rewrite make_url_ok by exact Hu. cbn [bind]. rewrite IH. reflexivity. Qed.
End Url.

Lemma bytes_eqb_eq a : forall b, bytes_eqb a b = true <-> a = b.
Proof.
  induction a as [|x a IH]; intros [|y b]; cbn [bytes_eqb]; try (split; [discriminate|discriminate]); [split; reflexivity|].
  rewrite andb_true_iff, IH, N.eqb_eq. split; [intros [-> ->]; reflexivity|intros E; injection E as -> ->; split; reflexivity].
Qed.

Lemma dedup_nodup l : forall acc, NoDup (acc ++ l) -> dedup l acc = acc ++ l.
Proof.
  induction l as [|x r IH]; intros acc H; cbn [dedup]; [rewrite app_nil_r; reflexivity|].
  destruct (existsb (bytes_eqb x) acc) eqn:E.
  - exfalso. apply existsb_exists in E as (y & Hy & Ey). apply bytes_eqb_eq in Ey. subst y.
    apply NoDup_remove_2 in H. apply H. apply in_or_app. left. exact Hy.
  - rewrite IH by (rewrite <- app_assoc; exact H). rewrite <- app_assoc. reflexivity.
Qed.

(* ---- lookups in the decoded query ---- *)
Definition seg_opt (k : bytes) (o : option bytes) : list (bytes * bytes) := match o with Some v => [(k, v)] | None => [] end.
Definition seg_list (k : bytes) (l : list bytes) : list (bytes * bytes) := map (fun v => (k, v)) l.
Definition seg_x (x : list (bytes * bytes)) : list (bytes * bytes) := map (fun p => (120%N :: 46%N :: fst p, snd p)) x.

Lemma lookup_all_app k a b : lookup_all k (a ++ b) = lookup_all k a ++ lookup_all k b.
Proof. induction a as [|[k' v] r IH]; [reflexivity|]. cbn [app lookup_all]. destruct (bytes_eqb k' k); cbn [app]; rewrite IH; reflexivity. Qed.

Lemma lookup_seg_opt k k' o : lookup_all k (seg_opt k' o) = if bytes_eqb k' k then match o with Some v => [v] | None => [] end else [].
Proof. destruct o; cbn [seg_opt lookup_all]; destruct (bytes_eqb k' k); reflexivity. Qed.

Lemma lookup_seg_list k k' l : lookup_all k (seg_list k' l) = if bytes_eqb k' k then l else [].
Proof.
  unfold seg_list. induction l as [|v r IH]; cbn [map lookup_all]; [destruct (bytes_eqb k' k); reflexivity|].
  destruct (bytes_eqb k' k); rewrite IH; reflexivity.
Qed.

(* a key that does not begin with "x." is not among the x parameters *)
Lemma lookup_seg_x_other k x : starts_with [120; 46]%N k = false -> lookup_all k (seg_x x) = [].
Proof.
  intros Hk. unfold seg_x. induction x as [|[kx vx] r IH]; [reflexivity|]. cbn [map lookup_all fst snd].
  destruct (bytes_eqb (120%N :: 46%N :: kx) k) eqn:E; [|exact IH].
  apply bytes_eqb_eq in E. subst k. discriminate Hk.
Qed.

Lemma lookup_seg_x_absent k x : ~ In k (map fst x) -> lookup_all (120%N :: 46%N :: k) (seg_x x) = [].
Proof.
  unfold seg_x. induction x as [|[k2 v2] r IH]; intros Hni; [reflexivity|]. cbn [map lookup_all fst snd] in *.
  destruct (bytes_eqb (120%N :: 46%N :: k2) (120%N :: 46%N :: k)) eqn:E.
  - exfalso. apply bytes_eqb_eq in E. injection E as ->. apply Hni. left. reflexivity.
  - apply IH. intros Hi. apply Hni. right. exact Hi.
Qed.

Lemma lookup_seg_x_key k v x : NoDup (map fst x) -> In (k, v) x -> lookup_all (120%N :: 46%N :: k) (seg_x x) = [v].
Proof.
  unfold seg_x. induction x as [|[kx vx] r IH]; intros Hnd Hin; [destruct Hin|]. cbn [map lookup_all fst snd] in *.
  inversion Hnd as [|? ? Hni Hnd']; subst. destruct Hin as [E|Hin].
  - injection E as -> ->. cbn [bytes_eqb]. rewrite !N.eqb_refl. cbn [andb].
    replace (bytes_eqb k k) with true by (symmetry; apply bytes_eqb_eq; reflexivity).
    f_equal. apply (lookup_seg_x_absent k r Hni).
  - destruct (bytes_eqb (120%N :: 46%N :: kx) (120%N :: 46%N :: k)) eqn:E.
    + exfalso. apply bytes_eqb_eq in E. injection E as ->. apply Hni. apply in_map_iff. exists (k, v). split; [reflexivity|exact Hin].
    + apply IH; assumption.
Qed.

Section RT.
Variable is_url : bytes -> bool.

Definition text_ok (b : bytes) : Prop := b <> [] /\ Forall is_byte b.

Record wf (m : magnet) : Prop := {
  wf_hash : hex40 (m_hash m) || b32_32 (m_hash m) = true;
  wf_dn : match m_dn m with Some n => text_ok n /\ ~ In 10%N n | None => True end;
  wf_xl : match m_xl m with Some z => 1 <= z | None => True end;
  wf_tr : Forall (fun u => url_ok is_url u /\ text_ok u) (m_tr m) /\ NoDup (m_tr m);
  wf_ws : Forall (fun u => url_ok is_url u /\ text_ok u) (m_ws m) /\ NoDup (m_ws m);
  wf_xs : match m_xs m with Some u => url_ok is_url u /\ text_ok u | None => True end;
  wf_as : match m_as m with Some u => url_ok is_url u /\ text_ok u | None => True end;
  wf_kt : Forall (fun k => word k /\ Forall is_byte k) (m_kt m);
  wf_x : Forall (fun p => key_ok (fst p) /\ text_ok (snd p)) (m_x m) /\ NoDup (map fst (m_x m))
}.

(* the rendered fields: key and URL-encoded value *)
Definition fields (m : magnet) : list (bytes * bytes) :=
  [(k_xt, urn_btih ++ ascii (m_hash m))]
  ++ seg_opt k_dn (option_map quote_plus (m_dn m))
  ++ seg_opt k_xl (option_map dec_of_Z (m_xl m))
  ++ seg_opt k_xs (option_map quote_plus (m_xs m))
  ++ seg_opt k_as_ (option_map quote_plus (m_as m))
  ++ seg_opt k_kt (match m_kt m with [] => None | kts => Some (join_with 43%N (map quote_plus kts)) end)
  ++ seg_list k_tr (map quote_plus (m_tr m))
  ++ seg_list k_ws (map quote_plus (m_ws m))
  ++ seg_x (map (fun p => (fst p, quote_plus (snd p))) (m_x m)).

Lemma render_fields m : render m = magnet_prefix ++ join_with 38%N (map (fun p => fst p ++ 61%N :: snd p) (fields m)).
Proof.
  unfold render, fields. f_equal. f_equal. rewrite !map_app. cbn [map fst snd]. unfold kv.
  f_equal. f_equal; [destruct (m_dn m); reflexivity|]. f_equal; [destruct (m_xl m); reflexivity|].
  f_equal; [destruct (m_xs m); reflexivity|]. f_equal; [destruct (m_as m); reflexivity|].
  f_equal; [destruct (m_kt m); reflexivity|]. unfold seg_list, seg_x. rewrite !map_map. cbn [fst snd]. reflexivity.
Qed.

(* the decoded query *)
Definition decoded (m : magnet) : list (bytes * bytes) :=
  [(k_xt, urn_btih ++ ascii (m_hash m))]
  ++ seg_opt k_dn (m_dn m)
  ++ seg_opt k_xl (option_map dec_of_Z (m_xl m))
  ++ seg_opt k_xs (m_xs m)
  ++ seg_opt k_as_ (m_as m)
  ++ seg_opt k_kt (match m_kt m with [] => None | kts => Some (join_with 32%N kts) end)
  ++ seg_list k_tr (m_tr m)
  ++ seg_list k_ws (m_ws m)
  ++ seg_x (m_x m).

(* ---- the rendered fields are well-formed query fields ---- *)
Ltac const_key := unfold key_ok; cbn [In]; repeat split; intros H; repeat (destruct H as [H|H]; [discriminate H|]); exact H.

Lemma quote_nonempty v : v <> [] -> quote_plus v <> [].
Proof. destruct v as [|c r]; [intros H; exfalso; apply H; reflexivity|]. intros _. cbn [quote_plus]. destruct (is_unreserved c); [discriminate|]. destruct (c =? 32)%N; discriminate. Qed.

Lemma enc_quote v : text_ok v -> enc_ok (quote_plus v).
Proof. intros [Hne Hb]. split; [apply quote_nonempty; exact Hne|exact (proj1 (quote_plus_no_separators v Hb))]. Qed.

Lemma hash_chars h : hex40 h || b32_32 h = true -> Forall (fun c => 48 <= c <= 122) h.
Proof.
  intros H. apply Forall_forall. intros c Hc. apply orb_true_iff in H as [H|H]; apply andb_true_iff in H as [_ H];
    rewrite forallb_forall in H; specialize (H c Hc); unfold is_hex, is_b32, in_ranges in H; cbn in H; lia.
Qed.

Lemma ascii_no c h : Forall (fun x => 48 <= x <= 122) h -> (c < 48)%N -> ~ In c (ascii h).
Proof.
  intros Hh Hc Hin. unfold ascii in Hin. apply in_map_iff in Hin as (x & Ex & Hx). rewrite Forall_forall in Hh. specialize (Hh x Hx). lia.
Qed.

Lemma cps_ascii h : Forall (fun x => 48 <= x <= 122) h -> cps (ascii h) = h.
Proof.
  unfold cps, ascii. induction 1 as [|x r Hx Hr IH]; [reflexivity|]. cbn [map]. rewrite IH. f_equal. lia.
Qed.

Lemma dec_chars z : 0 <= z -> dec_of_Z z <> [] /\ Forall (fun c => is_digit c = true) (dec_of_Z z).
Proof.
  intros Hz. unfold dec_of_Z. replace (z <? 0) with false by lia. destruct (digits_of_nonneg_spec z Hz) as (Ha & _ & Hne & _). split; assumption.
Qed.

Lemma digits_no c l : Forall (fun x => is_digit x = true) l -> is_digit c = false -> ~ In c l.
Proof. intros Hl Hc Hin. rewrite Forall_forall in Hl. rewrite (Hl c Hin) in Hc. discriminate. Qed.

Lemma join_no sep c l : c <> sep -> Forall (fun x => ~ In c x) l -> ~ In c (join_with sep l).
Proof.
  intros Hs. induction 1 as [|x r Hx Hr IH]; [intros []|]. destruct r as [|y r']; [exact Hx|].
  cbn [join_with]. intros Hin. apply in_app_or in Hin as [Hin|[Hin|Hin]]; [exact (Hx Hin)|exact (Hs (eq_sym Hin))|exact (IH Hin)].
Qed.

Lemma fields_ok m : wf m -> Forall (fun p => key_ok (fst p) /\ enc_ok (snd p)) (fields m).
Proof.
  intros [Hh Hdn Hxl [Htr _] [Hws _] Hxs Has Hkt [Hx _]]. unfold fields. pose proof (hash_chars _ Hh) as Hc.
  repeat (apply Forall_app; split).
  - constructor; [|constructor]. cbn [fst snd]. split; [const_key|]. split; [discriminate|].
    intros Hin. apply in_app_or in Hin as [Hin|Hin]; [cbn in Hin; repeat (destruct Hin as [Hin|Hin]; [discriminate Hin|]); exact Hin|].
    exact (ascii_no 38%N _ Hc ltac:(lia) Hin).
  - destruct (m_dn m) as [n|]; [|constructor]. constructor; [|constructor]. cbn [fst snd]. split; [const_key|apply enc_quote; exact (proj1 Hdn)].
  - destruct (m_xl m) as [z|]; [|constructor]. constructor; [|constructor]. cbn [fst snd option_map]. split; [const_key|].
    destruct (dec_chars z ltac:(lia)) as [A B]. split; [exact A|apply (digits_no _ _ B); reflexivity].
  - destruct (m_xs m) as [u|]; [|constructor]. constructor; [|constructor]. cbn [fst snd]. split; [const_key|apply enc_quote; exact (proj2 Hxs)].
  - destruct (m_as m) as [u|]; [|constructor]. constructor; [|constructor]. cbn [fst snd]. split; [const_key|apply enc_quote; exact (proj2 Has)].
  - destruct (m_kt m) as [|k0 kr] eqn:Ek; [constructor|]. constructor; [|constructor]. cbn [fst snd]. split; [const_key|]. split.
    + inversion Hkt as [|? ? [[Hne _] _] _]; subst. cbn [map join_with]. destruct (map quote_plus kr); [apply quote_nonempty; exact Hne|].
      intros E. apply (f_equal (@length N)) in E. rewrite app_length in E. cbn in E. pose proof (quote_nonempty k0 Hne). destruct (quote_plus k0); [contradiction|cbn in E; lia].
    + apply join_no; [discriminate|]. apply Forall_forall. intros x Hx0. apply in_map_iff in Hx0 as (k & <- & Hk). rewrite Forall_forall in Hkt.
      exact (proj1 (quote_plus_no_separators k (proj2 (Hkt k Hk)))).
  - unfold seg_list. rewrite map_map. apply Forall_forall. intros p Hp. apply in_map_iff in Hp as (u & <- & Hu). cbn [fst snd].
    rewrite Forall_forall in Htr. split; [const_key|apply enc_quote; exact (proj2 (Htr u Hu))].
  - unfold seg_list. rewrite map_map. apply Forall_forall. intros p Hp. apply in_map_iff in Hp as (u & <- & Hu). cbn [fst snd].
    rewrite Forall_forall in Hws. split; [const_key|apply enc_quote; exact (proj2 (Hws u Hu))].
  - unfold seg_x. rewrite map_map. apply Forall_forall. intros p Hp. apply in_map_iff in Hp as (q & <- & Hq). cbn [fst snd].
    rewrite Forall_forall in Hx. destruct (Hx q Hq) as [(K1 & K2 & K3 & K4) Ht]. split; [|apply enc_quote; exact Ht].
    unfold key_ok. repeat split; intros [E|[E|E]]; try discriminate E; auto.
Qed.

(* ---- decoding the rendered fields ---- *)
Lemma unquote_digits l : Forall (fun c => is_digit c = true) l -> unquote_plus l = l.
Proof. intros H. apply unquote_plus_plain; apply (digits_no _ _ H); reflexivity. Qed.

Lemma fields_decoded m : wf m -> map (fun p => (fst p, unquote_plus (snd p))) (fields m) = decoded m.
Proof.
  intros [Hh Hdn Hxl [Htr _] [Hws _] Hxs Has Hkt [Hx _]]. unfold fields, decoded. pose proof (hash_chars _ Hh) as Hc.
  rewrite !map_app. cbn [map fst snd].
  f_equal.
  { f_equal. f_equal. apply unquote_plus_plain; intros Hin; apply in_app_or in Hin as [Hin|Hin];
      try (cbn in Hin; repeat (destruct Hin as [Hin|Hin]; [discriminate Hin|]); exact Hin).
    - exact (ascii_no 43%N _ Hc ltac:(lia) Hin).
    - exact (ascii_no 37%N _ Hc ltac:(lia) Hin). }
  f_equal.
  { destruct (m_dn m) as [n|]; [|reflexivity]. cbn [option_map seg_opt map fst snd]. rewrite unquote_plus_quote_plus by exact (proj2 (proj1 Hdn)). reflexivity. }
  f_equal.
  { destruct (m_xl m) as [z|]; [|reflexivity]. cbn [option_map seg_opt map fst snd]. rewrite unquote_digits by exact (proj2 (dec_chars z ltac:(lia))). reflexivity. }
  f_equal.
  { destruct (m_xs m) as [u|]; [|reflexivity]. cbn [option_map seg_opt map fst snd]. rewrite unquote_plus_quote_plus by exact (proj2 (proj2 Hxs)). reflexivity. }
  f_equal.
  { destruct (m_as m) as [u|]; [|reflexivity]. cbn [option_map seg_opt map fst snd]. rewrite unquote_plus_quote_plus by exact (proj2 (proj2 Has)). reflexivity. }
  f_equal.
  { destruct (m_kt m) as [|k0 kr] eqn:Ek; [reflexivity|].
    cbn [seg_opt map fst snd]. change (quote_plus k0 :: map quote_plus kr) with (map quote_plus (k0 :: kr)).
    rewrite unquote_plus_join; [reflexivity|].
    eapply Forall_impl; [|exact Hkt]. intros k [_ Hb]. exact Hb. }
  f_equal.
  { unfold seg_list. rewrite !map_map. cbn [fst snd]. apply map_ext_in. intros u Hu. rewrite Forall_forall in Htr.
    rewrite unquote_plus_quote_plus by exact (proj2 (proj2 (Htr u Hu))). reflexivity. }
  f_equal.
  { unfold seg_list. rewrite !map_map. cbn [fst snd]. apply map_ext_in. intros u Hu. rewrite Forall_forall in Hws.
    rewrite unquote_plus_quote_plus by exact (proj2 (proj2 (Hws u Hu))). reflexivity. }
  unfold seg_x. rewrite !map_map. cbn [fst snd]. apply map_ext_in. intros p Hp. rewrite Forall_forall in Hx.
  rewrite unquote_plus_quote_plus by exact (proj2 (proj2 (Hx p Hp))). reflexivity.
Qed.

(* ---- evaluating the parser on the decoded query ---- *)
Definition opt_list (o : option bytes) : list bytes := match o with Some v => [v] | None => [] end.

Lemma lookup_decoded k m :
  lookup_all k (decoded m) =
    (if bytes_eqb k_xt k then [urn_btih ++ ascii (m_hash m)] else [])
    ++ (if bytes_eqb k_dn k then opt_list (m_dn m) else [])
    ++ (if bytes_eqb k_xl k then opt_list (option_map dec_of_Z (m_xl m)) else [])
    ++ (if bytes_eqb k_xs k then opt_list (m_xs m) else [])
    ++ (if bytes_eqb k_as_ k then opt_list (m_as m) else [])
    ++ (if bytes_eqb k_kt k then opt_list (match m_kt m with [] => None | kts => Some (join_with 32%N kts) end) else [])
    ++ (if bytes_eqb k_tr k then m_tr m else [])
    ++ (if bytes_eqb k_ws k then m_ws m else [])
    ++ lookup_all k (seg_x (m_x m)).
Proof.
  unfold decoded. rewrite !lookup_all_app, !lookup_seg_opt, !lookup_seg_list. cbn [lookup_all].
  destruct (bytes_eqb k_xt k); reflexivity.
Qed.

Ltac eval_keys := repeat match goal with |- context [bytes_eqb ?a ?b] =>
  let v := eval vm_compute in (bytes_eqb a b) in change (bytes_eqb a b) with v end.

Lemma single_opt k q o : lookup_all k q = opt_list o -> single k q = Ok o.
Proof. unfold single. intros ->. destruct o; reflexivity. Qed.

Lemma known_seg_x x : forallb (fun p => known_key (fst p)) (seg_x x) = true.
Proof. unfold seg_x. induction x as [|[k v] r IH]; [reflexivity|]. cbn [map forallb fst]. rewrite IH. unfold known_key. replace (starts_with [120; 46]%N (120%N :: 46%N :: k)) with true by reflexivity. rewrite orb_true_r. reflexivity. Qed.

Lemma known_decoded m : forallb (fun p => known_key (fst p)) (decoded m) = true.
Proof.
  unfold decoded. rewrite !forallb_app, known_seg_x. unfold seg_opt, seg_list.
  destruct (m_dn m), (m_xl m), (m_xs m), (m_as m), (m_kt m); cbn [option_map forallb map fst andb];
    rewrite ?forallb_map_const; repeat (rewrite andb_true_r || rewrite andb_true_l);
    repeat split; try reflexivity;
    repeat match goal with |- context [forallb ?f (map ?g ?l)] => replace (forallb f (map g l)) with true by (symmetry; induction l; [reflexivity|cbn; assumption]) end; reflexivity.
Qed.

(* collecting the x parameters *)
Definition not_x (k : bytes) : Prop := starts_with [120; 46]%N k = false /\ starts_with [120; 95]%N k = false.

Lemma collect_x_skip q0 a : Forall (fun p => not_x (fst p)) a -> forall b acc, collect_x q0 (a ++ b) acc = collect_x q0 b acc.
Proof.
  induction 1 as [|[k v] r [H1 H2] Hr IH]; intros b acc; [reflexivity|]. cbn [app collect_x fst] in *. rewrite H1, H2. cbn [orb]. apply IH.
Qed.

Lemma collect_x_seg q0 xfull : NoDup (map fst xfull) ->
  (forall k v, In (k, v) xfull -> lookup_all (120%N :: 46%N :: k) q0 = [v]) ->
  forall x' acc, acc ++ x' = xfull -> collect_x q0 (seg_x x') acc = xfull.
Proof.
  intros Hnd Hl. induction x' as [|[k v] r IH]; intros acc E; [cbn; rewrite app_nil_r in E; exact E|].
  cbn [seg_x map collect_x fst snd]. cbn [starts_with]. rewrite !N.eqb_refl. cbn [andb orb skipn].
  assert (Hin : In (k, v) xfull) by (rewrite <- E; apply in_or_app; right; left; reflexivity).
  rewrite (Hl k v Hin). cbn [hd].
  assert (Hex : existsb (fun p : bytes * bytes => bytes_eqb (fst p) k) acc = false).
  { destruct (existsb (fun p : bytes * bytes => bytes_eqb (fst p) k) acc) eqn:Ee; [|reflexivity]. exfalso.
    apply existsb_exists in Ee as ([k' v'] & Hp & Ek). apply bytes_eqb_eq in Ek. cbn in Ek. subst k'.
    rewrite <- E, map_app in Hnd. cbn [map fst] in Hnd. apply NoDup_remove_2 in Hnd. apply Hnd. apply in_or_app. left. apply in_map_iff. exists (k, v'). split; [reflexivity|exact Hp]. }
  rewrite Hex. apply IH. rewrite <- app_assoc. exact E.
Qed.

Lemma fixed_part_not_x m :
  Forall (fun p => not_x (fst p))
    ([(k_xt, urn_btih ++ ascii (m_hash m))] ++ seg_opt k_dn (m_dn m) ++ seg_opt k_xl (option_map dec_of_Z (m_xl m)) ++ seg_opt k_xs (m_xs m)
     ++ seg_opt k_as_ (m_as m) ++ seg_opt k_kt (match m_kt m with [] => None | kts => Some (join_with 32%N kts) end)
     ++ seg_list k_tr (m_tr m) ++ seg_list k_ws (m_ws m)).
Proof.
  repeat (apply Forall_app; split); unfold seg_opt, seg_list;
    try (destruct (m_dn m)); try (destruct (m_xl m)); try (destruct (m_xs m)); try (destruct (m_as m)); try (destruct (m_kt m));
    repeat constructor; try (apply Forall_forall; intros p Hp; apply in_map_iff in Hp as (u & <- & _); split; reflexivity).
Qed.

Ltac lookup_fixed := rewrite lookup_decoded; eval_keys; rewrite lookup_seg_x_other by reflexivity; cbn [app]; rewrite ?app_nil_r; reflexivity.

Lemma L_xt m : lookup_all k_xt (decoded m) = [urn_btih ++ ascii (m_hash m)]. Proof. lookup_fixed. Qed.
Lemma L_dn m : lookup_all k_dn (decoded m) = opt_list (m_dn m). Proof. lookup_fixed. Qed.
Lemma L_xl m : lookup_all k_xl (decoded m) = opt_list (option_map dec_of_Z (m_xl m)). Proof. lookup_fixed. Qed.
Lemma L_xs m : lookup_all k_xs (decoded m) = opt_list (m_xs m). Proof. lookup_fixed. Qed.
Lemma L_as m : lookup_all k_as (decoded m) = opt_list None. Proof. lookup_fixed. Qed.
Lemma L_as_ m : lookup_all k_as_ (decoded m) = opt_list (m_as m). Proof. lookup_fixed. Qed.
Lemma L_kt m : lookup_all k_kt (decoded m) = opt_list (match m_kt m with [] => None | kts => Some (join_with 32%N kts) end). Proof. lookup_fixed. Qed.
Lemma L_tr m : lookup_all k_tr (decoded m) = m_tr m. Proof. lookup_fixed. Qed.
Lemma L_ws m : lookup_all k_ws (decoded m) = m_ws m. Proof. lookup_fixed. Qed.

Lemma L_x m k v : NoDup (map fst (m_x m)) -> In (k, v) (m_x m) -> lookup_all (120%N :: 46%N :: k) (decoded m) = [v].
Proof.
  intros Hnd Hin. rewrite lookup_decoded.
  replace (bytes_eqb k_xt (120%N :: 46%N :: k)) with false by reflexivity. replace (bytes_eqb k_dn (120%N :: 46%N :: k)) with false by reflexivity.
  replace (bytes_eqb k_xl (120%N :: 46%N :: k)) with false by reflexivity. replace (bytes_eqb k_xs (120%N :: 46%N :: k)) with false by reflexivity.
  replace (bytes_eqb k_as_ (120%N :: 46%N :: k)) with false by reflexivity. replace (bytes_eqb k_kt (120%N :: 46%N :: k)) with false by reflexivity.
  replace (bytes_eqb k_tr (120%N :: 46%N :: k)) with false by reflexivity. replace (bytes_eqb k_ws (120%N :: 46%N :: k)) with false by reflexivity.
  cbn [app]. apply lookup_seg_x_key; assumption.
Qed.

Lemma cps_app a b : cps (a ++ b) = cps a ++ cps b. Proof. unfold cps. apply map_app. Qed.

Lemma xt_ok h : hex40 h || b32_32 h = true -> set_xt None (cps (urn_btih ++ ascii h)) = (Ok tt, Some h).
Proof.
  intros Hh. pose proof (hash_chars h Hh) as Hc. rewrite set_xt_spec, cps_app, (cps_ascii h Hc).
  assert (Hlen : length h = 40%nat \/ length h = 32%nat).
  { apply orb_true_iff in Hh as [H|H]; apply andb_true_iff in H as [H _]; apply Nat.eqb_eq in H; auto. }
  assert (E1 : hex40 (cps urn_btih ++ h) = false) by (unfold hex40; rewrite app_length; destruct Hlen as [-> | ->]; reflexivity).
  assert (E2 : b32_32 (cps urn_btih ++ h) = false) by (unfold b32_32; rewrite app_length; destruct Hlen as [-> | ->]; reflexivity).
  rewrite E1, E2. cbn [orb].
  replace (has_urn_prefix (cps urn_btih ++ h)) with true by reflexivity.
  replace (skipn 9 (cps urn_btih ++ h)) with h by reflexivity. rewrite Hh. reflexivity.
Qed.

Lemma map_no_nl n : ~ In 10%N n -> map (fun c => if (c =? 10)%N then 32%N else c) n = n.
Proof.
  induction n as [|c r IH]; intros H; [reflexivity|]. cbn [map].
  destruct (c =? 10)%N eqn:E; [exfalso; apply H; left; lia|]. f_equal. apply IH. intros Hi. apply H. right. exact Hi.
Qed.

Lemma skip_prefix J : skipn 8 (magnet_prefix ++ J) = J. Proof. reflexivity. Qed.
Lemma starts_prefix J : starts_with magnet_prefix (magnet_prefix ++ J) = true. Proof. reflexivity. Qed.

(* C13: parsing a rendered magnet gives back the magnet *)
Theorem parse_render m : wf m -> parse is_url (render m) = Ok m.
Proof.
  intros Hwf. pose proof Hwf as [Hh Hdn Hxl [Htr Htrnd] [Hws Hwsnd] Hxs Has Hkt [Hx Hxnd]].
  rewrite render_fields. unfold parse.
  rewrite starts_prefix, !skip_prefix. cbn [negb]. unfold bytes in *.
  rewrite (parse_qsl_join (fields m) (fields_ok m Hwf)), (fields_decoded m Hwf).
  rewrite known_decoded. cbn [negb]. rewrite L_xt, (xt_ok _ Hh).
  rewrite (single_opt k_dn _ _ (L_dn m)). cbn [bind].
  rewrite (single_opt k_xl _ _ (L_xl m)). cbn [bind].
  assert (Exl : match option_map dec_of_Z (m_xl m) with
                | Some v => match parse_int v with Some z => if z <? 1 then Err DMagnet else Ok (Some z) | None => Err DMagnet end
                | None => Ok None end = Ok (m_xl m)).
  { destruct (m_xl m) as [z|]; [|reflexivity]. cbn [option_map]. unfold parse_int. rewrite Z_of_dec_of_Z by lia. replace (z <? 1) with false by lia. reflexivity. }
  rewrite Exl. cbn [bind].
  rewrite (single_opt k_xs _ _ (L_xs m)). cbn [bind].
  assert (Exs : opt_url is_url (m_xs m) = Ok (m_xs m)).
  { destruct (m_xs m) as [u|]; [|reflexivity]. cbn [opt_url]. rewrite (make_url_ok is_url u (proj1 Hxs)). reflexivity. }
  rewrite Exs. cbn [bind].
  rewrite (single_opt k_as _ _ (L_as m)). cbn [bind opt_url].
  rewrite (single_opt k_as_ _ _ (L_as_ m)). cbn [bind].
  assert (Eas : opt_url is_url (m_as m) = Ok (m_as m)).
  { destruct (m_as m) as [u|]; [|reflexivity]. cbn [opt_url]. rewrite (make_url_ok is_url u (proj1 Has)). reflexivity. }
  rewrite Eas. cbn [bind].
  rewrite (single_opt k_kt _ _ (L_kt m)). cbn [bind].
  rewrite L_tr, L_ws.
  assert (Etr : mapM (make_url is_url) (m_tr m) = Ok (m_tr m)) by (apply mapM_make_url; eapply Forall_impl; [|exact Htr]; intros u [A _]; exact A).
  assert (Ews : mapM (make_url is_url) (m_ws m) = Ok (m_ws m)) by (apply mapM_make_url; eapply Forall_impl; [|exact Hws]; intros u [A _]; exact A).
  unfold bytes in *. rewrite Etr. cbn [bind]. rewrite Ews. cbn [bind].
  f_equal. destruct m as [h dn xl tr xs as_ ws kt x]. cbn [m_hash m_dn m_xl m_tr m_xs m_as m_ws m_kt m_x] in *.
  f_equal.
  - destruct dn as [n|]; [|reflexivity]. cbn [option_map]. rewrite map_no_nl by exact (proj2 Hdn). reflexivity.
  - exact (dedup_nodup tr [] Htrnd).
  - destruct as_; reflexivity.
  - exact (dedup_nodup ws [] Hwsnd).
  - destruct kt as [|k0 kr]; [reflexivity|]. apply split_ws_join; [|discriminate]. eapply Forall_impl; [|exact Hkt]. intros k [A _]. exact A.
  - unfold decoded at 2. cbn [m_hash m_dn m_xl m_tr m_xs m_as m_ws m_kt m_x].
    rewrite !app_assoc. rewrite collect_x_skip.
    + apply (collect_x_seg _ x Hxnd); [|reflexivity]. intros k v Hin.
      exact (L_x {| m_hash := h; m_dn := dn; m_xl := xl; m_tr := tr; m_xs := xs; m_as := as_; m_ws := ws; m_kt := kt; m_x := x |} k v Hxnd Hin).
    + rewrite <- !app_assoc.
      exact (fixed_part_not_x {| m_hash := h; m_dn := dn; m_xl := xl; m_tr := tr; m_xs := xs; m_as := as_; m_ws := ws; m_kt := kt; m_x := x |}).
Qed.
End RT.
