(* ReadDumpProofs.v -- C08: dumping (without validation) any torrent that read_stream
   returned without validation succeeds or raises the metainfo error -- for EVERY input
   byte string.  In particular the decoder and the encoder agree on how deep a structure
   may be nested: what could be read can be written. *)
From Coq Require Import Lia.
From Torf Require Import Base Sexp Bencode PyVal Extracted Convert Validate Export BencodeProofs ConvertProofs ConvRoundtrip.
Open Scope Z_scope.

(* the encoder's result is a value, ValueError or OverflowError -- not RecursionError or anything else *)
Definition enc_typed {X} (r : res X) : Prop :=
  match r with Ok _ | Err IValue | Err IOverflow => True | _ => False end.

Definition vals_typed (f : nat) (kvs : list (pyval * pyval)) : Prop :=
  Forall (fun kv => enc_typed (encode_value f (snd kv))) kvs.

Lemma enc_typed_bind {A B} (r : res A) (g : A -> res B) :
  enc_typed r -> (forall a, enc_typed (g a)) -> enc_typed (bind r g).
Proof. destruct r as [a|e]; cbn [bind]; intros H Hg; [apply Hg|exact H]. Qed.

Lemma mapM_typed {A B} (g : A -> res B) l : Forall (fun x => enc_typed (g x)) l -> enc_typed (mapM g l).
Proof.
  induction l as [|x r IH]; intros H; [exact I|]. inversion H; subst. cbn [mapM].
  apply enc_typed_bind; [assumption|]. intros a. apply enc_typed_bind; [apply IH; assumption|]. intros; exact I.
Qed.

Lemma mapM_In_inv {A B} (f : A -> res B) : forall l l' y,
  mapM f l = Ok l' -> In y l' -> exists x, In x l /\ f x = Ok y.
Proof.
  induction l as [|a r IH]; intros l' y H Hin; cbn [mapM] in H.
  - inversion H; subst. destruct Hin.
  - apply bind_ok in H as (b & Hb & H). apply bind_ok in H as (bs & Hbs & H). inversion H; subst.
    destruct Hin as [->|Hin]; [exists a; split; [left; reflexivity|exact Hb]|].
    destruct (IH bs y Hbs Hin) as (x & Hx & Hfx). exists x. split; [right; exact Hx|exact Hfx].
Qed.

(* all values typed => the dictionary is typed, whatever its keys *)
Lemma dict_typed f kvs : vals_typed f kvs -> enc_typed (encode_dict_aux (S f) kvs).
Proof.
  intros H. rewrite ed_eq. destruct (str_keys kvs) as [skvs|] eqn:Es; [|exact I].
  apply enc_typed_bind; [|intros; exact I]. apply mapM_typed. apply Forall_forall. intros [k v] Hin.
  apply (proj1 (sort_kvs_In skvs (k, v))) in Hin. cbn [fst snd].
  apply enc_typed_bind; [|intros; exact I].
  rewrite (str_keys_inv kvs skvs Es) in H. unfold vals_typed in H. rewrite Forall_forall in H.
  apply (H (PStr k, v)). apply in_map_iff. exists (k, v). split; [reflexivity|exact Hin].
Qed.

(* what the decoder produced with fuel f can be encoded with fuel f *)
Lemma decode_then_encode : forall f bv pv, decode_value f bv = Ok pv ->
  enc_typed (encode_value f pv) /\
  (forall kvs, pv = PDict kvs -> exists f2, f = S (S f2) /\ vals_typed f2 kvs).
Proof.
  induction f as [f IH] using lt_wf_ind. intros bv pv H.
  destruct f as [|f]; [discriminate|]. destruct bv as [z|b|l|kvs]; cbn [decode_value] in H.
  - inversion H; subst. split; [exact I|discriminate].
  - inversion H; subst. split; [destruct (utf8_valid b); exact I|destruct (utf8_valid b); discriminate].
  - apply bind_ok in H as (l' & Hm & H). inversion H; subst. split; [|discriminate].
    rewrite ev_list. apply enc_typed_bind; [|intros; exact I]. apply mapM_typed. apply Forall_forall. intros y Hy.
    destruct (mapM_In_inv _ _ _ _ Hm Hy) as (x & _ & Hx). apply (IH f ltac:(lia) x y Hx).
  - destruct f as [|f2]; [discriminate|].
    apply bind_ok in H as (l' & Hm & H). inversion H; subst.
    assert (vals_typed f2 l') as Hv.
    { apply Forall_forall. intros [k v] Hkv. cbn [snd].
      destruct (mapM_In_inv _ _ _ _ Hm Hkv) as ([k0 b0] & _ & Hx). cbn [fst snd] in Hx.
      apply bind_ok in Hx as (v' & Hv' & Hx). inversion Hx; subst. apply (IH f2 ltac:(lia) b0 v Hv'). }
    split.
    + rewrite ev_dict. apply dict_typed. exact Hv.
    + intros kvs0 E. inversion E; subst. exists f2. split; [reflexivity|exact Hv].
Qed.

(* ---- dictionary edits keep the values typed ---- *)
Lemma vals_typed_put f kvs k v : vals_typed f kvs -> enc_typed (encode_value f v) -> vals_typed f (dict_put kvs k v).
Proof.
  unfold vals_typed. induction kvs as [|[k0 v0] r IH]; intros H Hv; cbn [dict_put].
  - constructor; [exact Hv|constructor].
  - inversion H; subst. destruct (py_eqb k0 k); constructor; auto.
Qed.

Lemma vals_typed_del f kvs k : vals_typed f kvs -> vals_typed f (dict_del kvs k).
Proof.
  unfold vals_typed. induction kvs as [|[k0 v0] r IH]; intros H; cbn [dict_del]; [constructor|].
  inversion H; subst. destruct (py_eqb k0 k); [assumption|constructor; auto].
Qed.

Lemma vals_typed_get f kvs k v : vals_typed f kvs -> dict_get kvs k = Some v -> enc_typed (encode_value f v).
Proof.
  unfold vals_typed. induction kvs as [|[k0 v0] r IH]; intros H Hg; cbn [dict_get] in Hg; [discriminate|].
  inversion H; subst. destruct (py_eqb k0 k); [inversion Hg; subst; assumption|auto].
Qed.

(* a value as the decoder produces it with fuel f: encodable with fuel f, and if it is a dictionary
   its own values are encodable two levels further down *)
Definition good_val (f : nat) (v : pyval) : Prop :=
  enc_typed (encode_value f v) /\
  (forall kvs, v = PDict kvs -> exists f2, f = S (S f2) /\ vals_typed f2 kvs).

Definition md_ok (f : nat) (md : list (pyval * pyval)) : Prop := Forall (fun kv => good_val f (snd kv)) md.

Lemma decoded_dict_ok f2 ekvs md : decode_value (S (S f2)) (BDict ekvs) = Ok (PDict md) -> md_ok f2 md.
Proof.
  intros H. cbn [decode_value] in H. apply bind_ok in H as (l' & Hm & H). inversion H; subst.
  apply Forall_forall. intros [k v] Hkv. cbn [snd].
  destruct (mapM_In_inv _ _ _ _ Hm Hkv) as ([k0 b0] & _ & Hx). cbn [fst snd] in Hx.
  apply bind_ok in Hx as (v' & Hv' & Hx). inversion Hx; subst. apply (decode_then_encode f2 b0 v Hv').
Qed.

Lemma md_ok_vals f md : md_ok f md -> vals_typed f md.
Proof. unfold md_ok, vals_typed. intros H. eapply Forall_impl; [|exact H]. intros kv [A _]. exact A. Qed.

Lemma md_ok_put f md k v : md_ok f md -> good_val f v -> md_ok f (dict_put md k v).
Proof.
  unfold md_ok. induction md as [|[k0 v0] r IH]; intros H Hv; cbn [dict_put].
  - constructor; [exact Hv|constructor].
  - inversion H; subst. destruct (py_eqb k0 k); constructor; auto.
Qed.

Lemma md_ok_del f md k : md_ok f md -> md_ok f (dict_del md k).
Proof.
  unfold md_ok. induction md as [|[k0 v0] r IH]; intros H; cbn [dict_del]; [constructor|].
  inversion H; subst. destruct (py_eqb k0 k); [assumption|constructor; auto].
Qed.

Lemma md_ok_get f md k v : md_ok f md -> dict_get md k = Some v -> good_val f v.
Proof.
  unfold md_ok. induction md as [|[k0 v0] r IH]; intros H Hg; cbn [dict_get] in Hg; [discriminate|].
  inversion H; subst. destruct (py_eqb k0 k); [inversion Hg; subst; assumption|auto].
Qed.

Lemma good_simple f v : enc_typed (encode_value f v) -> (forall kvs, v <> PDict kvs) -> good_val f v.
Proof. intros H Hn. split; [exact H|]. intros kvs E. exfalso. exact (Hn kvs E). Qed.

Lemma good_dict f2 kvs : vals_typed f2 kvs -> good_val (S (S f2)) (PDict kvs).
Proof.
  intros H. split; [rewrite ev_dict; apply dict_typed; exact H|].
  intros kvs0 E. inversion E; subst. exists f2. split; [reflexivity|exact H].
Qed.

Lemma md_ok_ensure_info f2 md : md_ok (S (S f2)) md -> md_ok (S (S f2)) (ensure_info md).
Proof.
  intros H. unfold ensure_info. destruct (dict_get md (PStr k_info)); [exact H|].
  unfold md_ok. apply Forall_app. split; [exact H|]. constructor; [|constructor]. cbn [snd]. apply good_dict. constructor.
Qed.

(* replacing a value inside the info dictionary *)
Lemma md_ok_put_info f2 md info k v :
  md_ok (S (S f2)) md -> dict_get md (PStr k_info) = Some (PDict info) -> enc_typed (encode_value f2 v) ->
  md_ok (S (S f2)) (dict_put md (PStr k_info) (PDict (dict_put info k v))).
Proof.
  intros H Hg Hv. apply md_ok_put; [exact H|].
  destruct (md_ok_get _ _ _ _ H Hg) as [_ Hd]. destruct (Hd info eq_refl) as (f3 & E & Hvals).
  inversion E; subst. apply good_dict. apply vals_typed_put; assumption.
Qed.

Section RD.
Variable is_url : bytes -> bool.
(* the proofs are generic in the depth limit: depth_limit = d3 + 4 *)
Variable d3 : nat.
Hypothesis Hdl : depth_limit = S (S (S (S d3))).
Let F := S (S (S d3)).      (* the fuel of the values of the top-level dictionary *)

Definition ok_or_meta {X} (r : res X) : Prop := match r with Ok _ | Err DMetainfo => True | _ => False end.

Lemma encode_m_typed bv : ok_or_meta (encode_m bv).
Proof. unfold encode_m, encode. destruct (has_huge_int bv); exact I. Qed.

Lemma convert_typed md : md_ok F md -> ok_or_meta (convert md).
Proof.
  intros H. unfold convert, encode_dict. rewrite Hdl. fold F.
  pose proof (dict_typed F (ensure_info md) (md_ok_vals _ _ (md_ok_ensure_info (S d3) md H))) as Ht.
  destruct (encode_dict_aux (S F) (ensure_info md)) as [bv|e]; [exact I|]. destruct e; try contradiction; exact I.
Qed.

Lemma rs_convert_ok ekvs1 md0 : rs_convert (BDict ekvs1) = Ok (PDict md0) -> md_ok F md0.
Proof.
  unfold rs_convert. rewrite Hdl. fold F. intros Hdec.
  destruct (decode_value (S (S F)) (BDict ekvs1)) as [p|e] eqn:Ed.
  - injection Hdec as Ep. rewrite Ep in Ed. exact (decoded_dict_ok F ekvs1 md0 Ed).
  - exfalso. destruct e; try discriminate Hdec.
    all: destruct (catches XRecursionError ex_read_convert_catches); discriminate Hdec.
Qed.

Lemma strip_pieces_bytes ekvs pieces ekvs1 :
  rs_strip_pieces ekvs = (pieces, ekvs1) -> pieces = None \/ exists p, pieces = Some (BStr p).
Proof.
  intros E. unfold rs_strip_pieces in E. unfold ex_read_strips_any_pieces in E.
  destruct (bdict_get ekvs k_info) as [[| | |ikvs]|]; try (inversion E; left; reflexivity).
  destruct (bdict_get ikvs k_pieces) as [[| p | |]|]; inversion E; subst; try (left; reflexivity). right. eexists; reflexivity.
Qed.

Lemma restore_pieces_ok pieces md0 : (pieces = None \/ exists p, pieces = Some (BStr p)) -> md_ok F md0 -> md_ok F (rs_restore_pieces pieces md0).
Proof.
  intros Hp H0. unfold rs_restore_pieces. destruct Hp as [->|[p ->]]; [exact H0|].
  destruct (dict_get md0 (PStr k_info)) as [[| | | | | | | |info| | |]|] eqn:Eg; try exact H0.
  apply (md_ok_put_info (S d3) md0 info); [exact H0|exact Eg|].
  rewrite Hdl. exact I.
Qed.

Lemma cdate_ok ekvs md1 md2 : rs_cdate ekvs md1 = Ok md2 -> md_ok F md1 -> md_ok F md2.
Proof.
  intros Hcd H1. unfold rs_cdate in Hcd. destruct (bdict_get ekvs k_creation_date) as [[z| | |]|]; try (inversion Hcd; subst; exact H1).
  - destruct ((ts_min <=? z) && (z <=? ts_max)).
    + inversion Hcd; subst. apply md_ok_put; [exact H1|]. apply good_simple; [exact I|discriminate].
    + destruct (catches XValueError ex_read_cdate_catches && catches XOverflowError ex_read_cdate_catches && catches XOSError ex_read_cdate_catches); discriminate.
  - destruct (bval_truthy (BStr b)); [destruct (catches XValueError ex_read_cdate_catches); discriminate|]. inversion Hcd; subst. apply md_ok_del. exact H1.
  - destruct (bval_truthy (BList l)); [destruct (catches XValueError ex_read_cdate_catches); discriminate|]. inversion Hcd; subst. apply md_ok_del. exact H1.
  - destruct (bval_truthy (BDict kvs)); [destruct (catches XValueError ex_read_cdate_catches); discriminate|]. inversion Hcd; subst. apply md_ok_del. exact H1.
Qed.

Lemma private_ok info_enc md2 : md_ok F md2 -> md_ok F (rs_private info_enc md2).
Proof.
  intros H2. unfold rs_private. destruct info_enc as [[| | |ikvs]|]; try exact H2.
  destruct (bdict_get ikvs k_private) as [v|]; [|exact H2].
  destruct (dict_get (ensure_info md2) (PStr k_info)) as [[| | | | | | | |info| | |]|] eqn:Eg; try exact H2.
  apply (md_ok_put_info (S d3) (ensure_info md2) info); [apply md_ok_ensure_info; exact H2|exact Eg|]. exact I.
Qed.

(* the metainfo read_stream returns without validation has the decoder's shape *)
Theorem read_stream_md_ok x md : read_stream is_url false x = Ok md -> md_ok F md.
Proof.
  unfold read_stream. destruct (Z.of_nat (length x) >? ex_max_torrent_file_size); [discriminate|].
  intros H. apply bind_ok in H as (enc & _ & H).
  destruct enc as [z|b|l|ekvs]; try discriminate.
  destruct (rs_strip_pieces ekvs) as [pieces ekvs1] eqn:Es.
  pose proof (strip_pieces_bytes ekvs pieces ekvs1 Es) as Hstrip.
  apply bind_ok in H as (dec & Hdec & H). destruct dec as [| | | | | | | |md0| | |]; try discriminate.
  pose proof (rs_convert_ok ekvs1 md0 Hdec) as H0.
  pose proof (restore_pieces_ok pieces md0 Hstrip H0) as H1.
  apply bind_ok in H as (u & _ & H). apply bind_ok in H as (md2 & Hcd & H).
  pose proof (cdate_ok ekvs _ md2 Hcd H1) as H2.
  unfold rs_finish in H. injection H as <-. apply private_ok. exact H2.
Qed.

(* C08: whatever bytes were read without validation, dumping the returned torrent without validation
   succeeds or raises the metainfo error *)
Theorem read_then_dump_typed_gen x md :
  read_stream is_url false x = Ok md -> ok_or_meta (dump is_url FSNone false md).
Proof.
  intros H. pose proof (read_stream_md_ok x md H) as Hok. unfold dump. cbn [bind].
  pose proof (convert_typed md Hok) as Hc. destruct (convert md) as [bv|e]; cbn [bind]; [apply encode_m_typed|exact Hc].
Qed.
End RD.

Theorem read_then_dump_typed is_url x md :
  read_stream is_url false x = Ok md -> ok_or_meta (dump is_url FSNone false md).
Proof. exact (read_then_dump_typed_gen is_url 396 eq_refl x md). Qed.
