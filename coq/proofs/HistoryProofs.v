(* HistoryProofs.v -- C19: results of operations on one stream object do not
   depend on the open-handle table (hence not on earlier operations); the table
   never holds more than cap+1 entries; close empties it. *)
From Coq Require Import Lia ZifyBool.
From Torf Require Import Base Extracted Geometry Stream History GeometryProofs.
Open Scope Z_scope.

Definition h_ok (d : disk) (h : handles) : Prop :=
  forall id, In id h -> disk_get d id <> None.

Definition h_bounded (h : handles) : Prop := zlen h <= ex_max_open_files + 1.

Lemma h_ok_nil d : h_ok d [].
Proof. intros id []. Qed.

Lemma h_bounded_nil : h_bounded [].
Proof. unfold h_bounded, zlen, ex_max_open_files. cbn. lia. Qed.

Lemma evict_In n cap h id : In id (evict n cap h) -> In id h.
Proof.
  revert h; induction n as [|n IH]; intros h H; cbn [evict] in H; [exact H|].
  destruct (zlen h >? cap); [|exact H].
  apply IH in H. destruct h; [exact H|right; exact H].
Qed.

Lemma evict_len n cap h : 0 <= cap -> (length h <= n)%nat -> zlen (evict n cap h) <= cap.
Proof.
  intros Hc. revert h; induction n as [|n IH]; intros h Hn; cbn [evict].
  - unfold zlen. destruct h; cbn in *; lia.
  - destruct (zlen h >? cap) eqn:E; [|lia].
    apply IH. destruct h; cbn in *; lia.
Qed.

Lemma zmem_In' x l : zmem x l = true -> In x l.
Proof. apply zmem_In. Qed.

Lemma get_open_file_spec d h id :
  h_ok d h ->
  fst (get_open_file d h id) =
    (match disk_get d id with Some _ => Ok tt | None => Err (DRead 2) end) /\
  h_ok d (snd (get_open_file d h id)) /\
  (h_bounded h -> h_bounded (snd (get_open_file d h id))).
Proof.
  intros Hok. unfold get_open_file.
  destruct (zmem id h) eqn:Em.
  - apply zmem_In' in Em. pose proof (Hok id Em) as Hid.
    destruct (disk_get d id); [|congruence]. cbn [fst snd]. repeat split; auto.
  - assert (h_ok d (evict (length h) ex_max_open_files h)) as Hev.
    { intros x Hx. apply Hok. eapply evict_In; eauto. }
    assert (zlen (evict (length h) ex_max_open_files h) <= ex_max_open_files) as Hl.
    { apply evict_len; [unfold ex_max_open_files; lia|lia]. }
    destruct (disk_get d id) eqn:Ed; cbn [fst snd].
    + split; [reflexivity|]. split.
      * intros x Hx. apply in_app_iff in Hx as [Hx|[<-|[]]]; [apply Hev; exact Hx|congruence].
      * intros _. unfold h_bounded, zlen in *. rewrite app_length. cbn [length]. lia.
    + split; [reflexivity|]. split; [exact Hev|]. intros _. unfold h_bounded. lia.
Qed.

(* ---- get_piece ---- *)
Lemma gp_read_indep d : forall rel h1 h2 seek n acc,
  h_ok d h1 -> h_ok d h2 ->
  fst (gp_read d h1 rel seek n acc) = fst (gp_read d h2 rel seek n acc).
Proof.
  induction rel as [|f r IH]; intros h1 h2 seek n acc H1 H2; cbn [gp_read]; [reflexivity|].
  destruct (get_open_file_spec d h1 (fid f) H1) as (E1 & O1 & _).
  destruct (get_open_file_spec d h2 (fid f) H2) as (E2 & O2 & _).
  destruct (get_open_file d h1 (fid f)) as [r1 h1'].
  destruct (get_open_file d h2 (fid f)) as [r2 h2'].
  cbn [fst snd] in *. subst r1 r2.
  destruct (disk_get d (fid f)) as [c|]; [|reflexivity].
  destruct (negb (zlen c =? fsize f)); [reflexivity|].
  destruct (seek <? 0); [reflexivity|]. apply IH; assumption.
Qed.

Lemma gp_read_inv d : forall rel h seek n acc,
  h_ok d h ->
  h_ok d (snd (gp_read d h rel seek n acc)) /\
  (h_bounded h -> h_bounded (snd (gp_read d h rel seek n acc))).
Proof.
  induction rel as [|f r IH]; intros h seek n acc Hok; cbn [gp_read]; [cbn; auto|].
  destruct (get_open_file_spec d h (fid f) Hok) as (E1 & O1 & B1).
  destruct (get_open_file d h (fid f)) as [r1 h1']. cbn [fst snd] in *.
  destruct r1 as [u|e]; [|cbn; auto].
  destruct (disk_get d (fid f)) as [c|]; [|cbn; auto].
  destruct (negb (zlen c =? fsize f)); [cbn; auto|].
  destruct (seek <? 0); [cbn; auto|].
  destruct (IH h1' 0 (n - zlen (read_at c seek n)) (acc ++ read_at c seek n) O1) as [A B].
  split; [exact A|]. intros Hb. apply B, B1, Hb.
Qed.

Lemma get_piece_indep d fs L i h1 h2 :
  h_ok d h1 -> h_ok d h2 ->
  fst (get_piece d h1 fs L i) = fst (get_piece d h2 fs L i).
Proof.
  intros H1 H2. unfold get_piece.
  destruct (gp_plan fs L i) as [[[rel seek] exp]|e]; [|reflexivity].
  pose proof (gp_read_indep d rel h1 h2 seek L [] H1 H2) as E.
  destruct (gp_read d h1 rel seek L []) as [r1 h1'].
  destruct (gp_read d h2 rel seek L []) as [r2 h2']. cbn [fst] in E. subst r2.
  destruct r1 as [p|e]; [|reflexivity]. destruct (zlen p =? exp); reflexivity.
Qed.

Lemma get_piece_inv d fs L i h :
  h_ok d h ->
  h_ok d (snd (get_piece d h fs L i)) /\
  (h_bounded h -> h_bounded (snd (get_piece d h fs L i))).
Proof.
  intros Hok. unfold get_piece.
  destruct (gp_plan fs L i) as [[[rel seek] exp]|e]; [|cbn; auto].
  pose proof (gp_read_inv d rel h seek L [] Hok) as [A B].
  destruct (gp_read d h rel seek L []) as [r1 h1']. cbn [snd] in *.
  destruct r1 as [p|e]; [destruct (zlen p =? exp)|]; cbn; auto.
Qed.

Section WithHash.
Variable H : bytes -> bytes.

Lemma verify_piece_indep d fs L hashes i h1 h2 :
  h_ok d h1 -> h_ok d h2 ->
  fst (verify_piece H d h1 fs L hashes i) = fst (verify_piece H d h2 fs L hashes i).
Proof.
  intros H1 H2. unfold verify_piece, get_piece_hash.
  destruct ((if i <? 0 then i + zlen hashes else i) <? 0) eqn:E1; cbn [orb]; [reflexivity|].
  destruct ((if i <? 0 then i + zlen hashes else i) >=? zlen hashes) eqn:E2; [reflexivity|].
  pose proof (get_piece_indep d fs L i h1 h2 H1 H2) as E.
  destruct (get_piece d h1 fs L i) as [r1 h1'].
  destruct (get_piece d h2 fs L i) as [r2 h2']. cbn [fst] in E. subst r2.
  destruct r1 as [p|e]; [reflexivity|].
  destruct e; try reflexivity. destruct errno; try reflexivity.
  destruct p; try reflexivity. destruct p; reflexivity.
Qed.

Lemma verify_piece_inv d fs L hashes i h :
  h_ok d h ->
  h_ok d (snd (verify_piece H d h fs L hashes i)) /\
  (h_bounded h -> h_bounded (snd (verify_piece H d h fs L hashes i))).
Proof.
  intros Hok. unfold verify_piece, get_piece_hash.
  destruct (((if i <? 0 then i + zlen hashes else i) <? 0) ||
            ((if i <? 0 then i + zlen hashes else i) >=? zlen hashes)); [cbn; auto|].
  pose proof (get_piece_inv d fs L i h Hok) as [A B].
  destruct (get_piece d h fs L i) as [r1 h1']. cbn [snd] in *.
  destruct r1 as [p|e]; [cbn; auto|].
  destruct e; cbn; auto. destruct errno; cbn; auto.
  destruct p; cbn; auto. destruct p; cbn; auto.
Qed.
End WithHash.

(* ---- iter_pieces ---- *)
Definition st_sim (s1 s2 : it_state) : Prop :=
  it_trailing s1 = it_trailing s2 /\ it_skip s1 = it_skip s2 /\ it_mp s1 = it_mp s2 /\
  it_lastfile s1 = it_lastfile s2.

Definition snaps_ok (d : disk) (l : list (item * handles)) : Prop :=
  Forall (fun x => h_ok d (snd x) /\ h_bounded (snd x)) l.

Lemma snaps_ok_app d a b : snaps_ok d a -> snaps_ok d b -> snaps_ok d (a ++ b).
Proof. unfold snaps_ok. intros. apply Forall_app; split; assumption. Qed.

Lemma snaps_ok_map d (f : item) (g : bytes -> item) h l :
  h_ok d h -> h_bounded h -> snaps_ok d (map (fun p => (g p, h)) l).
Proof.
  intros Ho Hb. unfold snaps_ok. apply Forall_forall. intros x Hx.
  apply in_map_iff in Hx as (p & <- & _). cbn. auto.
Qed.

Lemma snaps_ok_map' d h (l : list item) :
  h_ok d h -> h_bounded h -> snaps_ok d (map (fun it => (it, h)) l).
Proof.
  intros Ho Hb. unfold snaps_ok. apply Forall_forall. intros x Hx.
  apply in_map_iff in Hx as (p & <- & _). cbn. auto.
Qed.

Lemma iter_files_indep d fs_all L : forall todo s1 s2 a1 a2,
  st_sim s1 s2 -> h_ok d (it_h s1) -> h_ok d (it_h s2) ->
  h_bounded (it_h s1) -> h_bounded (it_h s2) ->
  map fst a1 = map fst a2 -> snaps_ok d a1 -> snaps_ok d a2 ->
  match iter_files d fs_all L todo s1 a1, iter_files d fs_all L todo s2 a2 with
  | Ok (l1, t1), Ok (l2, t2) =>
      map fst l1 = map fst l2 /\ st_sim t1 t2 /\ snaps_ok d l1 /\ snaps_ok d l2 /\
      h_ok d (it_h t1) /\ h_ok d (it_h t2) /\ h_bounded (it_h t1) /\ h_bounded (it_h t2)
  | Err e1, Err e2 => e1 = e2
  | _, _ => False
  end.
Proof.
  induction todo as [|f r IH]; intros s1 s2 a1 a2 Hs O1 O2 B1 B2 Ha S1 S2; cbn [iter_files].
  - repeat split; try assumption; apply Hs.
  - destruct Hs as (Ht & Hk & Hm & Hl).
    rewrite <- ?Hm.
    destruct (file_mem f (mp_bycatch (it_mp s1))).
    { apply IH; try assumption. repeat split; assumption. }
    destruct (disk_get d (fid f)) as [c|] eqn:Ed.
    + destruct (negb (zlen c =? fsize f)) eqn:Esz.
      * (* wrong size: missing-pieces path, handles unchanged *)
        cbn [fst snd]. rewrite <- ?Hm.
        destruct (missing_pieces d fs_all L (it_mp s1) f (XSize, fid f)) as [[[items skip] mp']|e]; cbn [bind]; [|reflexivity].
        apply IH; cbn [it_h]; try assumption.
        -- repeat split; reflexivity.
        -- rewrite !map_app, !map_map. cbn [fst]. f_equal. exact Ha.
        -- apply snaps_ok_app; [assumption|apply snaps_ok_map'; assumption].
        -- apply snaps_ok_app; [assumption|apply snaps_ok_map'; assumption].
      * destruct (get_open_file_spec d (it_h s1) (fid f) O1) as (E1 & O1' & B1').
        destruct (get_open_file_spec d (it_h s2) (fid f) O2) as (E2 & O2' & B2').
        rewrite Ed in E1, E2.
        destruct (get_open_file d (it_h s1) (fid f)) as [r1 h1'].
        destruct (get_open_file d (it_h s2) (fid f)) as [r2 h2'].
        cbn [fst snd] in *. subst r1 r2.
        rewrite <- ?Ht, <- ?Hk.
        apply IH; cbn [it_h]; try assumption; try (apply B1'; assumption); try (apply B2'; assumption).
        -- repeat split; reflexivity.
        -- rewrite !map_app, !map_map. cbn [fst]. f_equal. exact Ha.
        -- apply snaps_ok_app; [assumption|].
           apply (snaps_ok_map d (None, 0, []) (fun p => (Some p, fid f, []))); [assumption|apply B1'; assumption].
        -- apply snaps_ok_app; [assumption|].
           apply (snaps_ok_map d (None, 0, []) (fun p => (Some p, fid f, []))); [assumption|apply B2'; assumption].
    + (* missing file *)
      cbn [negb].
      destruct (get_open_file_spec d (it_h s1) (fid f) O1) as (E1 & O1' & B1').
      destruct (get_open_file_spec d (it_h s2) (fid f) O2) as (E2 & O2' & B2').
      rewrite Ed in E1, E2.
      destruct (get_open_file d (it_h s1) (fid f)) as [r1 h1'].
      destruct (get_open_file d (it_h s2) (fid f)) as [r2 h2'].
      cbn [fst snd] in *. subst r1 r2. rewrite <- ?Hm.
      destruct (missing_pieces d fs_all L (it_mp s1) f (XMissing, fid f)) as [[[items skip] mp']|e]; cbn [bind]; [|reflexivity].
      apply IH; cbn [it_h]; try assumption; try (apply B1'; assumption); try (apply B2'; assumption).
      * repeat split; reflexivity.
      * rewrite !map_app, !map_map. cbn [fst]. f_equal. exact Ha.
      * apply snaps_ok_app; [assumption|apply snaps_ok_map'; [assumption|apply B1'; assumption]].
      * apply snaps_ok_app; [assumption|apply snaps_ok_map'; [assumption|apply B2'; assumption]].
Qed.

Lemma iter_pieces_snap_indep d fs L h1 h2 :
  h_ok d h1 -> h_ok d h2 -> h_bounded h1 -> h_bounded h2 ->
  match iter_pieces_snap d h1 fs L, iter_pieces_snap d h2 fs L with
  | Ok l1, Ok l2 => map fst l1 = map fst l2 /\ snaps_ok d l1 /\ snaps_ok d l2
  | Err e1, Err e2 => e1 = e2
  | _, _ => False
  end.
Proof.
  intros O1 O2 B1 B2. unfold iter_pieces_snap.
  destruct (L <=? 0); [reflexivity|].
  set (s1 := {| it_trailing := []; it_skip := 0; it_mp := {| mp_seen := []; mp_bycatch := [] |};
                it_h := h1; it_lastfile := 0 |}).
  set (s2 := {| it_trailing := []; it_skip := 0; it_mp := {| mp_seen := []; mp_bycatch := [] |};
                it_h := h2; it_lastfile := 0 |}).
  pose proof (iter_files_indep d fs L fs s1 s2 [] []) as HI.
  specialize (HI ltac:(repeat split; reflexivity) O1 O2 B1 B2 eq_refl ltac:(constructor) ltac:(constructor)).
  destruct (iter_files d fs L fs s1 []) as [[l1 t1]|e1];
    destruct (iter_files d fs L fs s2 []) as [[l2 t2]|e2]; cbn [bind]; try contradiction; [|exact HI].
  destruct HI as (Hl & (Ht & _ & _ & Hlf) & S1 & S2 & O1' & O2' & B1' & B2').
  rewrite <- Ht, <- Hlf.
  destruct (it_trailing t1); [auto|].
  rewrite !map_app, Hl. cbn [map fst]. split; [reflexivity|].
  split; (apply snaps_ok_app; [assumption|repeat constructor; cbn; assumption]).
Qed.

Lemma last_map_snd_ok d (l : list (item * handles)) h :
  snaps_ok d l -> h_ok d h -> h_bounded h ->
  h_ok d (last (map snd l) h) /\ h_bounded (last (map snd l) h).
Proof.
  intros Hs Ho Hb. induction l as [|x r IH]; cbn [map last]; [auto|].
  inversion Hs as [|? ? [Hx1 Hx2] Hr]; subst.
  destruct (map snd r) eqn:E; [auto|]. apply IH. exact Hr.
Qed.

Lemma snaps_ok_firstn d n l : snaps_ok d l -> snaps_ok d (firstn n l).
Proof.
  unfold snaps_ok. intros Hl. apply Forall_forall. intros x Hx.
  apply (proj1 (Forall_forall _ _) Hl). eapply In_firstn; eauto.
Qed.

(* ---- one step of a history ---- *)
Section Hist.
Variable H : bytes -> bytes.
Variables (d : disk) (fs : list file) (L : Z) (hashes : list bytes).

Theorem hstep_independent h1 h2 o :
  h_ok d h1 -> h_ok d h2 -> h_bounded h1 -> h_bounded h2 ->
  fst (hstep H d fs L hashes h1 o) = fst (hstep H d fs L hashes h2 o).
Proof.
  intros O1 O2 B1 B2. destruct o as [k|i|i|]; cbn [hstep].
  - pose proof (iter_pieces_snap_indep d fs L h1 h2 O1 O2 B1 B2) as HI.
    destruct (iter_pieces_snap d h1 fs L) as [l1|e1];
      destruct (iter_pieces_snap d h2 fs L) as [l2|e2]; try contradiction.
    + destruct HI as (Hl & _ & _).
      assert (zlen l1 = zlen l2) as Hz.
      { unfold zlen. f_equal. rewrite <- (map_length fst l1), <- (map_length fst l2), Hl. reflexivity. }
      rewrite Hz. destruct ((k <? 0) || (k >=? zlen l2)); cbn [fst].
      * rewrite Hl. reflexivity.
      * rewrite <- !firstn_map, Hl. reflexivity.
    + cbn. subst. reflexivity.
  - pose proof (get_piece_indep d fs L i h1 h2 O1 O2) as E.
    destruct (get_piece d h1 fs L i), (get_piece d h2 fs L i). cbn in *. congruence.
  - pose proof (verify_piece_indep H d fs L hashes i h1 h2 O1 O2) as E.
    destruct (verify_piece H d h1 fs L hashes i), (verify_piece H d h2 fs L hashes i). cbn in *. congruence.
  - reflexivity.
Qed.

Theorem hstep_invariant h o :
  h_ok d h -> h_bounded h ->
  h_ok d (snd (hstep H d fs L hashes h o)) /\ h_bounded (snd (hstep H d fs L hashes h o)).
Proof.
  intros Ho Hb. destruct o as [k|i|i|]; cbn [hstep].
  - pose proof (iter_pieces_snap_indep d fs L h h Ho Ho Hb Hb) as HI.
    destruct (iter_pieces_snap d h fs L) as [l|e]; [|cbn; auto].
    destruct HI as (_ & Hs & _).
    destruct ((k <? 0) || (k >=? zlen l)); cbn [snd].
    + apply last_map_snd_ok; assumption.
    + apply last_map_snd_ok; try assumption. apply snaps_ok_firstn. exact Hs.
  - pose proof (get_piece_inv d fs L i h Ho) as [A B].
    destruct (get_piece d h fs L i). cbn in *. auto.
  - pose proof (verify_piece_inv H d fs L hashes i h Ho) as [A B].
    destruct (verify_piece H d h fs L hashes i). cbn in *. auto.
  - cbn. split; [apply h_ok_nil|apply h_bounded_nil].
Qed.

(* handle table reached from the empty table by any history *)
Fixpoint hstate (h : handles) (ops : list hop) : handles :=
  match ops with
  | [] => h
  | o :: r => hstate (snd (hstep H d fs L hashes h o)) r
  end.

Theorem hstate_invariant ops : forall h,
  h_ok d h -> h_bounded h -> h_ok d (hstate h ops) /\ h_bounded (hstate h ops).
Proof.
  induction ops as [|o r IH]; intros h Ho Hb; cbn [hstate]; [auto|].
  destruct (hstep_invariant h o Ho Hb) as [A B]. apply IH; assumption.
Qed.

(* the result of [o] after history hist1 equals its result after history hist2 *)
Theorem history_independent hist1 hist2 o :
  fst (hstep H d fs L hashes (hstate [] hist1) o) =
  fst (hstep H d fs L hashes (hstate [] hist2) o).
Proof.
  destruct (hstate_invariant hist1 [] (h_ok_nil d) h_bounded_nil) as [A1 B1].
  destruct (hstate_invariant hist2 [] (h_ok_nil d) h_bounded_nil) as [A2 B2].
  apply hstep_independent; assumption.
Qed.

Theorem open_files_bounded hist :
  zlen (hstate [] hist) <= ex_max_open_files + 1.
Proof.
  destruct (hstate_invariant hist [] (h_ok_nil d) h_bounded_nil) as [_ B]. exact B.
Qed.

Theorem close_closes_all h : snd (hstep H d fs L hashes h HClose) = [].
Proof. reflexivity. Qed.

(* hrun reports exactly these results *)
Lemma hrun_cons h o r :
  hrun H d fs L hashes h (o :: r) =
    (fst (hstep H d fs L hashes h o), zlen (snd (hstep H d fs L hashes h o)))
      :: hrun H d fs L hashes (snd (hstep H d fs L hashes h o)) r.
Proof. cbn [hrun]. destruct (hstep H d fs L hashes h o). reflexivity. Qed.
End Hist.
