(* FilesizeAgree.v -- C20, agreement with full verification, unbounded: whenever a full read of the content
   (what verify() hashes) reports no error for any piece, the quick size check succeeds -- with no callback
   and with a passive one.  The two code paths are independent models: iter_pieces (model/Stream.v, proofs
   in IterDamage.v) and verify_filesize (model/Filesize.v). *)
From Coq Require Import Lia ZifyBool.
From Torf Require Import Base Extracted Geometry Stream GeometryProofs IterProofs IterDamage Filesize FilesizeProofs.
Open Scope Z_scope.

(* what the size check finds at the path of a listed file *)
Definition fstate_of (d : disk) (f : file) : fstate :=
  match disk_get d (fid f) with None => FMissing | Some c => FSize (zlen c) end.

Lemma report_nil_matches d f : report_of d f = [] -> fstate_of d f = FSize (fsize f).
Proof.
  unfold report_of, fstate_of. destruct (disk_get d (fid f)) as [c|]; [|discriminate].
  destruct (zlen c =? fsize f) eqn:E; [intros _; f_equal; lia|discriminate].
Qed.

Lemma flat_map_nil {X Y} (g : X -> list Y) l : flat_map g l = [] -> Forall (fun x => g x = []) l.
Proof.
  induction l as [|x l IH]; cbn [flat_map]; intros H; [constructor|].
  apply app_eq_nil in H as [H1 H2]. constructor; [exact H1|apply IH; exact H2].
Qed.

Lemma all_match_of_reports d fs :
  flat_map (report_of d) fs = [] -> all_match (map fsize fs) (map (fstate_of d) fs).
Proof.
  intros H. apply flat_map_nil in H. unfold all_match.
  induction H as [|f fs Hf _ IH]; cbn [map]; constructor; [apply report_nil_matches; exact Hf|exact IH].
Qed.

Lemma all_match_no_error files disk k e st x :
  all_match files disk -> nth_error files k = Some x -> nth_error disk k = Some st -> file_error x st = Some e -> False.
Proof.
  intros H. revert k. induction H as [|a b fr dr Hab _ IH]; intros k Hf Hd He; [destruct k; discriminate Hf|].
  destruct k as [|k]; cbn [nth_error] in Hf, Hd; [|exact (IH k Hf Hd He)].
  injection Hf as <-. injection Hd as <-. apply file_error_none in Hab. rewrite Hab in He. discriminate He.
Qed.

Theorem filesize_agrees_with_full_read d L fs h items :
  0 < L -> allpos fs -> NoDup fs ->
  iter_pieces d h fs L = Ok items -> flat_map excs_of items = [] ->
  fst (verify_filesize None false (map fsize fs) (map (fstate_of d) fs)) = FRet true /\
  fst (verify_filesize (Some 0) false (map fsize fs) (map (fstate_of d) fs)) = FRet true.
Proof.
  intros HL Hpos Hnd E Hex.
  destruct (iter_pieces_refines d L fs h HL Hpos Hnd) as (items' & E' & _ & _ & Hr).
  rewrite E in E'. injection E' as <-. rewrite Hex in Hr. symmetry in Hr.
  pose proof (all_match_of_reports d fs Hr) as Hm.
  assert (Hlen : length (map fsize fs) = length (map (fstate_of d) fs)) by (rewrite !map_length; reflexivity).
  split.
  - unfold verify_filesize. pose proof (nocb_exact (map fsize fs) (map (fstate_of d) fs) 0 0 false [] Hlen) as P.
    destruct (vf_loop None 0 0 false (map fsize fs) (map (fstate_of d) fs) []) as [[b|e] calls]; cbn [fst].
    + destruct P as (A & _). rewrite A. reflexivity.
    + exfalso. destruct P as (_ & k & ex & st & Hf & Hd & He & _). exact (all_match_no_error _ _ k e st ex Hm Hf Hd He).
  - unfold verify_filesize. rewrite passive_cb by lia. cbn [fst orb].
    apply (any_err_false _ _ Hlen) in Hm. rewrite Hm. reflexivity.
Qed.
