(* TerminationProofs.v -- C03/C04, unbounded: every call can always be completed.  From every state reachable
   under any schedule (any hasher count, input, callback plan, read fault, refused additional hasher, clock) some
   schedule leads to a state in which the call has returned -- so under a fair scheduler the call returns.
   Proof: a measure of the remaining work that some enabled step strictly decreases as long as the call has not
   returned (the unproductive steps -- the idle timeout of the vital hasher, the janitor's timeout and its
   re-scan while a hasher still runs -- are never the only ones available). *)
From Coq Require Import Lia ZifyBool Wf_nat.
From Torf Require Import Base Pipeline PipelineProofs FlowProofs ThreadProofs DeadlockProofs ConservationProofs DrainProofs.
Open Scope Z_scope.

(* ---- the measure ---- *)
Definition wrpc (pc : rpc) : nat := match pc with RStopRead => 4 | RPut _ => 3 | RClock => 4 | RPutClosed _ => 1 | RExit => 0 end%nat.

Definition Wreader (s : state) : nat :=
  match s_rst s with
  | TDone => 0
  | TNew => 10 * length (s_rtodo s) + 5
  | TRunning => 10 * length (s_rtodo s) + wrpc (s_rpc s)
  end%nat.

Definition whasher (h : tstate * hpc) : nat :=
  match h with
  | (TNew, _) => 4
  | (TDone, _) => 0
  | (TRunning, pc) => match pc with HGet => 3 | HPutHash _ => 3 | HRequeue => 2 | HSet => 1 | HExit => 0 end
  end%nat.

Fixpoint Whs (hs : list (tstate * hpc)) : nat := match hs with [] => 0%nat | h :: r => (whasher h + Whs r)%nat end.

Definition Wjan (s : state) : nat :=
  let T := length (s_tracked s) in
  match s_jst s with
  | TNew => T + 4
  | TDone => 0
  | TRunning =>
      match s_jpc s with
      | JWait => T + 3
      | JWaitAlive rest => length rest + 2
      | JPruneAlive rest => T + 3 + length rest + 1
      | JPutClosed => 1
      | JExit => 0
      end
  end%nat.

Definition rem (n : nat) (t : tid) : nat := if t =? 1 then (n + 1)%nat else if t =? 2 then 0%nat else (n + 3 - Z.to_nat t)%nat.

Definition Wmain (s : state) : nat :=
  let T := length (s_tracked s) in let n := length (s_hs s) in
  match s_mpc s with
  | MAlive t => 2 * T + 7 + 2 * rem n t + 2
  | MStart t => 2 * T + 7 + 2 * rem n t + 1
  | MGet => 2 * T + 7
  | MClock _ _ _ => 2 * T + 10
  | MStopRead _ => 2 * T + 9
  | MStopWrite _ => 2 * T + 8
  | MRJoinAlive _ => 2 * T + 6
  | MRJoin _ => 2 * T + 5
  | MHJoinAlive _ pos _ => 2 * (T - pos) + 4
  | MHJoin _ pos _ => 2 * (T - pos) + 3
  | MJJoinAlive _ => 2
  | MJJoin _ => 1
  | MDone => 0
  end%nat.

Definition Wfl (s : state) : nat := (6 * qn (s_pq s) + 5 * hn (s_hs s) + 4 * qn (s_hq s))%nat.

Definition mu (s : state) : nat := (Wmain s + Wreader s + Wfl s + Whs (s_hs s) + Wjan s)%nat.

Lemma Whs_set_nth l : forall i x old, nth_error l i = Some old -> (Whs (set_nth l i x) + whasher old = Whs l + whasher x)%nat.
Proof.
  induction l as [|y l IH]; intros i x old Hn; [destruct i; discriminate Hn|].
  destruct i as [|i]; cbn [nth_error] in Hn.
  - injection Hn as ->. cbn [set_nth Whs]. lia.
  - cbn [set_nth Whs]. pose proof (IH i x old Hn). lia.
Qed.

Lemma length_set_nth {X} (l : list X) : forall i x, length (set_nth l i x) = length l.
Proof. induction l as [|y l IH]; intros [|i] x; cbn; auto. Qed.

Lemma length_remove_tid t l : (length (remove_tid t l) <= length l)%nat.
Proof. induction l as [|x l IH]; cbn; [lia|]. destruct (x =? t); cbn; lia. Qed.

Lemma Wmain_eq s s' : s_tracked s' = s_tracked s -> length (s_hs s') = length (s_hs s) -> s_mpc s' = s_mpc s -> Wmain s' = Wmain s.
Proof. unfold Wmain. intros -> -> ->. reflexivity. Qed.
Lemma Wreader_eq s s' : s_rst s' = s_rst s -> s_rtodo s' = s_rtodo s -> s_rpc s' = s_rpc s -> Wreader s' = Wreader s.
Proof. unfold Wreader. intros -> -> ->. reflexivity. Qed.
Lemma Wjan_eq s s' : s_tracked s' = s_tracked s -> s_jst s' = s_jst s -> s_jpc s' = s_jpc s -> Wjan s' = Wjan s.
Proof. unfold Wjan. intros -> -> ->. reflexivity. Qed.

(* ---- hashers ---- *)
Lemma step_hasher_dec s i a pc :
  nth_error (s_hs s) i = Some (TRunning, pc) -> pc <> HExit ->
  (pc = HGet -> (a = AGo /\ s_pq s <> []) \/ (a = ATimeout /\ i <> 0%nat)) ->
  (forall it, pc = HPutHash it -> is_piece it = true) ->
  (mu (step_hasher s i a) < mu s)%nat.
Proof.
  intros En Hne Hget Hpiece. unfold step_hasher. rewrite En.
  pose proof (Whs_set_nth (s_hs s) i) as HW. pose proof (hn_set_nth (s_hs s) i) as HN.
  assert (Hrest : forall s', s_tracked s' = s_tracked s -> length (s_hs s') = length (s_hs s) -> s_mpc s' = s_mpc s ->
                    s_rst s' = s_rst s -> s_rtodo s' = s_rtodo s -> s_rpc s' = s_rpc s -> s_jst s' = s_jst s -> s_jpc s' = s_jpc s ->
                    (Wfl s' + Whs (s_hs s') < Wfl s + Whs (s_hs s))%nat -> (mu s' < mu s)%nat).
  { intros s' A1 A2 A3 A4 A5 A6 A7 A8 H. unfold mu. rewrite (Wmain_eq s s' A1 A2 A3), (Wreader_eq s s' A4 A5 A6), (Wjan_eq s s' A1 A7 A8). lia. }
  destruct pc as [|it| | |]; try contradiction.
  - destruct (Hget eq_refl) as [[-> Hpq]|[-> Hi]].
    + destruct (s_pq s) as [|[|idx h exc] r] eqn:Epq; [contradiction| |].
      * pose proof (HW (TRunning, HRequeue) _ En) as E1. pose proof (HN (TRunning, HRequeue) _ En) as E2.
        apply Hrest; try reflexivity; [apply length_set_nth|].
        unfold Wfl, upd_hasher. cbn [set_hs set_pq s_pq s_hs s_hq]. rewrite Epq, qn_closed_cons.
        unfold hw in E2. cbn [whasher held_item snd qn flat_map length] in E1, E2.
        lia.
      * match goal with |- context [HPutHash ?o] => pose proof (HW (TRunning, HPutHash o) _ En) as E1; pose proof (HN (TRunning, HPutHash o) _ En) as E2 end.
        apply Hrest; try reflexivity; [apply length_set_nth|].
        unfold Wfl, upd_hasher. cbn [set_hs set_pq s_pq s_hs s_hq]. rewrite Epq, qn_piece.
        unfold hw in E2. cbn [whasher held_item snd] in E1, E2. destruct exc; cbn [qn flat_map qidx app length] in E2; lia.
    + replace (Nat.eqb i 0) with false by (symmetry; apply Nat.eqb_neq; exact Hi).
      pose proof (HW (TDone, HExit) _ En) as E1. pose proof (HN (TDone, HExit) _ En) as E2.
      apply Hrest; try reflexivity; [apply length_set_nth|].
      unfold Wfl, upd_hasher. cbn [set_hs set_now s_pq s_hs s_hq].
      unfold hw in E2. cbn [whasher held_item snd qn flat_map length] in E1, E2. lia.
  - pose proof (HW (TRunning, HGet) _ En) as E1. pose proof (HN (TRunning, HGet) _ En) as E2.
    apply Hrest; try reflexivity; [apply length_set_nth|].
    unfold Wfl, upd_hasher. cbn [set_hs set_hq s_pq s_hs s_hq]. rewrite qn_app.
    unfold hw in E2. cbn [whasher held_item snd] in E1, E2. change (qn []) with 0%nat in E2.
    assert (qn [it] = 1)%nat by (pose proof (Hpiece it eq_refl) as Hp; destruct it; [discriminate Hp|reflexivity]). lia.
  - pose proof (HW (TRunning, HSet) _ En) as E1. pose proof (HN (TRunning, HSet) _ En) as E2.
    apply Hrest; try reflexivity; [apply length_set_nth|].
    unfold Wfl, upd_hasher. cbn [set_hs set_pq s_pq s_hs s_hq]. rewrite qn_app, qn_closed.
    unfold hw in E2. cbn [whasher held_item snd qn flat_map length] in E1, E2. lia.
  - pose proof (HW (TDone, HExit) _ En) as E1. pose proof (HN (TDone, HExit) _ En) as E2.
    apply Hrest; try reflexivity; [apply length_set_nth|].
    unfold Wfl, upd_hasher. cbn [set_hs set_final s_pq s_hs s_hq].
    unfold hw in E2. cbn [whasher held_item snd qn flat_map length] in E1, E2. lia.
Qed.

Lemma Wmain_mono s s' : s_mpc s' = s_mpc s -> length (s_hs s') = length (s_hs s) -> (length (s_tracked s') <= length (s_tracked s))%nat ->
  (Wmain s' <= Wmain s)%nat.
Proof. unfold Wmain. intros -> -> H. destruct (s_mpc s); lia. Qed.

(* ---- janitor ---- *)
Lemma step_janitor_dec s a : s_jst s = TRunning -> s_jpc s <> JExit ->
  (s_jpc s = JWait -> a = AGo) -> (forall t rest, s_jpc s = JWaitAlive (t :: rest) -> is_alive s t = false) ->
  (mu (step_janitor s a) < mu s)%nat.
Proof.
  intros Hrun Hne Hw Hdead.
  assert (Hrest : forall s', s_mpc s' = s_mpc s -> s_hs s' = s_hs s -> (length (s_tracked s') <= length (s_tracked s))%nat ->
                    s_rst s' = s_rst s -> s_rtodo s' = s_rtodo s -> s_rpc s' = s_rpc s -> s_pq s' = s_pq s -> qn (s_hq s') = qn (s_hq s) ->
                    (Wjan s' < Wjan s)%nat -> (mu s' < mu s)%nat).
  { intros s' A1 A2 A3 A4 A5 A6 A7 A8 H. unfold mu, Wfl. rewrite (Wreader_eq s s' A4 A5 A6), A2, A7, A8.
    pose proof (Wmain_mono s s' A1 ltac:(rewrite A2; reflexivity) A3). lia. }
  unfold step_janitor. destruct (s_jpc s) as [|l|l| |] eqn:Ej; try contradiction.
  - rewrite (Hw eq_refl). destruct (s_tracked s) as [|t0 l0] eqn:Et; apply Hrest; try reflexivity; cbn [upd_janitor s_tracked]; try lia;
      unfold Wjan; cbn [upd_janitor s_jst s_jpc s_tracked]; rewrite Hrun, Ej, ?Et; cbn [length]; lia.
  - destruct l as [|t r].
    + apply Hrest; try reflexivity; cbn [upd_janitor s_tracked]; try lia. unfold Wjan. cbn [upd_janitor s_jst s_jpc s_tracked]. rewrite Hrun, Ej. cbn [length]. lia.
    + rewrite (Hdead t r eq_refl). destruct r as [|t1 r1]; apply Hrest; try reflexivity; cbn [upd_janitor s_tracked]; try lia;
        unfold Wjan; cbn [upd_janitor s_jst s_jpc s_tracked]; rewrite Hrun, Ej; cbn [length]; lia.
  - destruct l as [|t r].
    + apply Hrest; try reflexivity; cbn [upd_janitor s_tracked]; try lia. unfold Wjan. cbn [upd_janitor s_jst s_jpc s_tracked]. rewrite Hrun, Ej. cbn [length]. lia.
    + assert (Hlen : (length (if is_alive s t then s_tracked s else remove_tid t (s_tracked s)) <= length (s_tracked s))%nat).
      { destruct (is_alive s t); [lia|apply length_remove_tid]. }
      destruct r as [|t1 r1]; apply Hrest; try reflexivity; cbn [upd_janitor s_tracked]; try exact Hlen;
        unfold Wjan; cbn [upd_janitor s_jst s_jpc s_tracked]; rewrite Hrun, Ej; cbn [length]; lia.
  - apply Hrest; try reflexivity; cbn [upd_janitor set_hq s_tracked s_hq]; try lia; [rewrite qn_app, qn_closed; lia|].
    unfold Wjan. cbn [upd_janitor set_hq s_jst s_jpc s_tracked]. rewrite Hrun, Ej. lia.
Qed.

(* ---- reader ---- *)
Lemma reader_next_W s todo idx : (Wreader (reader_next s todo idx) <= 10 * length todo + 4)%nat.
Proof. unfold reader_next, Wreader. destruct todo as [|[h|es| | |e] rest]; cbn; lia. Qed.

Lemma reader_next_other s todo idx :
  let s' := reader_next s todo idx in
  s_tracked s' = s_tracked s /\ s_hs s' = s_hs s /\ s_mpc s' = s_mpc s /\ s_jst s' = s_jst s /\ s_jpc s' = s_jpc s /\ s_pq s' = s_pq s /\ s_hq s' = s_hq s.
Proof. cbv zeta. unfold reader_next. destruct todo as [|[h|es| | |e] rest]; cbn; repeat split; reflexivity. Qed.

Lemma step_reader_dec c s : FInv c s -> s_rst s = TRunning -> s_rpc s <> RExit -> (mu (step_reader s) < mu s)%nat.
Proof.
  intros Hf Hrun Hne.
  assert (Hrest : forall s', s_tracked s' = s_tracked s -> s_hs s' = s_hs s -> s_mpc s' = s_mpc s -> s_jst s' = s_jst s -> s_jpc s' = s_jpc s ->
                    s_hq s' = s_hq s -> (Wreader s' + 6 * qn (s_pq s') < Wreader s + 6 * qn (s_pq s))%nat -> (mu s' < mu s)%nat).
  { intros s' A1 A2 A3 A4 A5 A6 H. unfold mu, Wfl. rewrite (Wmain_eq s s' A1 ltac:(rewrite A2; reflexivity) A3), (Wjan_eq s s' A1 A4 A5), A2, A6. lia. }
  unfold step_reader. destruct (s_rpc s) as [|it| |exc|] eqn:Erpc; try contradiction.
  - destruct (s_stop s).
    + apply Hrest; try reflexivity. unfold Wreader. cbn [upd_reader s_rst s_rtodo s_rpc s_pq]. rewrite Hrun, Erpc. cbn [wrpc length]. lia.
    + destruct (s_rtodo s) as [|[h|es| | |e] rest] eqn:Et; apply Hrest; try reflexivity;
        unfold Wreader; cbn [upd_reader s_rst s_rtodo s_rpc s_pq]; rewrite Hrun, Erpc, ?Et; cbn [wrpc length]; lia.
  - destruct (fi_put c s Hf it Erpc) as (r0 & rest & h & exc & Et & _ & -> & _).
    set (s1 := set_pq s (s_pq s ++ [QPiece (s_ridx s) h exc])).
    destruct (reader_next_other s1 (tl (s_rtodo s)) (s_ridx s + 1)) as (B1 & B2 & B3 & B4 & B5 & B6 & B7).
    apply Hrest; try assumption. rewrite B6. unfold s1. cbn [set_pq s_pq]. rewrite qn_app. change (qn [QPiece (s_ridx s) h exc]) with 1%nat.
    pose proof (reader_next_W s1 (tl (s_rtodo s)) (s_ridx s + 1)) as HW.
    assert (Hs : Wreader s = (10 * length (s_rtodo s) + 3)%nat) by (unfold Wreader; rewrite Hrun, Erpc; reflexivity).
    rewrite Et in HW, Hs. cbn [tl length] in HW, Hs. rewrite Et. cbn [tl]. subst s1. lia.
  - destruct (fi_clock c s Hf Erpc) as (rest & Et).
    assert (Hn : forall s0, s_rst s0 = s_rst s -> s_rtodo s0 = s_rtodo s -> s_rpc s0 = s_rpc s -> s_pq s0 = s_pq s ->
                  s_tracked s0 = s_tracked s -> s_hs s0 = s_hs s -> s_mpc s0 = s_mpc s -> s_jst s0 = s_jst s -> s_jpc s0 = s_jpc s -> s_hq s0 = s_hq s ->
                  (mu (reader_next s0 (tl (s_rtodo s)) (s_ridx s)) < mu s)%nat).
    { intros s0 C1 C2 C3 C4 C5 C6 C7 C8 C9 C10. destruct (reader_next_other s0 (tl (s_rtodo s)) (s_ridx s)) as (B1 & B2 & B3 & B4 & B5 & B6 & B7).
      apply Hrest; try congruence. rewrite B6, C4.
      pose proof (reader_next_W s0 (tl (s_rtodo s)) (s_ridx s)) as HW.
      assert (Hs : Wreader s = (10 * length (s_rtodo s) + 4)%nat) by (unfold Wreader; rewrite Hrun, Erpc; reflexivity).
      rewrite Et in HW, Hs. cbn [tl length] in HW, Hs. rewrite Et. cbn [tl]. lia. }
    destruct (s_now s - s_memts s >=? 100).
    + destruct (negb (_ =? _)); [apply Hn; reflexivity|].
      apply Hrest; try reflexivity. unfold Wreader. cbn [upd_reader s_rst s_rtodo s_rpc s_pq]. rewrite Hrun, Erpc. cbn [wrpc length]. lia.
    + apply Hn; reflexivity.
  - apply Hrest; try reflexivity. unfold Wreader. cbn [upd_reader set_pq s_rst s_rtodo s_rpc s_pq]. rewrite Hrun, Erpc, qn_app, qn_closed. cbn [wrpc]. lia.
Qed.

(* ---- main ---- *)
Lemma mu_set_mpc s pc : (mu (set_mpc s pc) + Wmain s = mu s + Wmain (set_mpc s pc))%nat.
Proof. unfold mu, Wfl, Wreader, Wjan. cbn [set_mpc s_rst s_rtodo s_rpc s_pq s_hs s_hq s_jst s_jpc s_tracked]. lia. Qed.

Lemma Wmain_set_mpc s pc : Wmain (set_mpc s pc) = Wmain (set_mpc s pc). Proof. reflexivity. Qed.

Lemma rem_next c t t' n : n = cf_hashers c -> (t = 1 \/ t = 2 \/ is_hasher c t) -> next_to_start c t = Some t' -> (rem n t' < rem n t)%nat.
Proof.
  intros -> Ht. unfold next_to_start, rem, is_hasher in *. destruct (t =? 1) eqn:E1.
  - intros E. injection E as <-. cbn. lia.
  - destruct (t =? 2) eqn:E2; [discriminate|]. destruct Ht as [Ht|[Ht|Ht]]; try lia.
    destruct (t - 3 + 1 <? Z.of_nat (cf_hashers c)) eqn:E3; intros E; injection E as <-.
    + replace (t + 1 =? 1) with false by lia. replace (t + 1 =? 2) with false by lia. lia.
    + cbn. lia.
Qed.

Lemma Wmain_next_hasher s o pos :
  (Wmain (set_mpc s (next_hasher s o pos)) <= 2 * (length (s_tracked s) - pos) + 4)%nat /\
  (nth_error (s_tracked s) pos = None -> Wmain (set_mpc s (next_hasher s o pos)) = 2%nat).
Proof.
  unfold next_hasher, Wmain. cbn [set_mpc s_mpc s_tracked s_hs]. destruct (nth_error (s_tracked s) pos) eqn:En; split; try lia; try discriminate; try (intros _; reflexivity).
Qed.

Lemma collect_item_tracked c s idx h exc : s_tracked (collect_item c s idx h exc) = s_tracked s.
Proof.
  unfold collect_item. destruct (_ || _); [|reflexivity].
  destruct (cf_verify c); destruct exc; destruct (has_user_cb c); try destruct (mismatch c idx h); try destruct (user_cb c _) as [[|]|]; reflexivity.
Qed.

Lemma step_main_dec c s inc :
  TInv c s -> FInv c s -> DInv c s -> idle_ok (s_hs s) -> main_enabled s <> [] -> (mu (step_main c s inc) < mu s)%nat.
Proof.
  intros T Hf Hd Hidle Hen. unfold main_enabled in Hen. destruct (s_mdone s) eqn:Hmd; [contradiction Hen; reflexivity|].
  assert (Hpc : forall pc, (Wmain (set_mpc s pc) < Wmain s)%nat -> (mu (set_mpc s pc) < mu s)%nat).
  { intros pc H. pose proof (mu_set_mpc s pc). lia. }
  unfold step_main. destruct (s_mpc s) eqn:Empc.
  - apply Hpc. unfold Wmain. cbn [set_mpc s_mpc s_tracked s_hs]. rewrite Empc. lia.
  - (* a thread is started, or refused *)
    destruct (t_start c s T t (or_intror Empc)) as (Hjn & Hvalid & Hr1 & _).
    assert (Hnext : forall t', next_to_start c t = Some t' -> (rem (length (s_hs s)) t' < rem (length (s_hs s)) t)%nat).
    { intros t' E. apply (rem_next c t t' _ (t_len c s T) Hvalid E). }
    assert (Hgo : forall s1 pc, s_tracked s1 = s_tracked s -> length (s_hs s1) = length (s_hs s) ->
                   (pc = MGet \/ exists t', pc = MAlive t' /\ next_to_start c t = Some t') ->
                   (Wreader s1 + Wfl s1 + Whs (s_hs s1) + Wjan s1 <= Wreader s + Wfl s + Whs (s_hs s) + Wjan s)%nat ->
                   (mu (set_mpc s1 pc) < mu s)%nat).
    { intros s1 pc A1 A2 Hpcs H. pose proof (mu_set_mpc s1 pc) as E. unfold mu in *.
      assert (Wmain (set_mpc s1 pc) < Wmain s)%nat.
      { unfold Wmain. cbn [set_mpc s_mpc s_tracked s_hs]. rewrite A1, A2, Empc. destruct Hpcs as [->|(t' & -> & En)]; [lia|]. pose proof (Hnext t' En). lia. }
      cbn [set_mpc s_hs] in *. lia. }
    destruct (refused c t).
    + destruct ((t =? 1) || (t =? 2) || (t =? 3)).
      * unfold mu, Wmain, Wreader, Wfl, Wjan. cbn [finish_main s_mpc s_rst s_rtodo s_rpc s_pq s_hs s_hq s_jst s_jpc s_tracked]. rewrite Empc. lia.
      * destruct (next_to_start c t) as [t'|] eqn:En; apply Hgo; try reflexivity; try lia; [right; exists t'; split; reflexivity|left; reflexivity].
    + assert (Hst : s_tracked (start_thread s t) = s_tracked s /\ length (s_hs (start_thread s t)) = length (s_hs s) /\
                    (Wreader (start_thread s t) + Wfl (start_thread s t) + Whs (s_hs (start_thread s t)) + Wjan (start_thread s t)
                     <= Wreader s + Wfl s + Whs (s_hs s) + Wjan s)%nat).
      { unfold start_thread. destruct (t =? 1) eqn:E1.
        - assert (t = 1) as -> by lia. pose proof (Hr1 eq_refl) as Hnew.
          set (s0 := upd_reader s TRunning RStopRead (s_rtodo s) 0 None).
          destruct (reader_next_other s0 (s_rtodo s) 0) as (B1 & B2 & B3 & B4 & B5 & B6 & B7).
          pose proof (reader_next_W s0 (s_rtodo s) 0) as HW.
          split; [rewrite B1; reflexivity|]. split; [rewrite B2; reflexivity|].
          unfold Wfl. rewrite B2, B6, B7. rewrite (Wjan_eq s0 _ B1 B4 B5).
          assert (Wreader s = 10 * length (s_rtodo s) + 5)%nat by (unfold Wreader; rewrite Hnew; reflexivity).
          subst s0. cbn [upd_reader s_pq s_hs s_hq] in *. unfold Wjan at 1. cbn [upd_reader s_jst s_jpc s_tracked]. fold (Wjan s). lia.
        - destruct (t =? 2) eqn:E2.
          + split; [reflexivity|]. split; [reflexivity|]. unfold Wreader, Wfl, Wjan. cbn [upd_janitor s_rst s_rtodo s_rpc s_pq s_hs s_hq s_jst s_jpc s_tracked]. rewrite Hjn. lia.
          + unfold upd_hasher. cbn [set_hs s_tracked s_hs]. split; [reflexivity|]. split; [apply length_set_nth|].
            destruct (nth_error (s_hs s) (hasher_index t)) as [[st pc]|] eqn:En.
            * assert (st = TNew) as -> by (apply (d_unstarted c s Hd t (or_intror Empc) ltac:(lia) (hasher_index t) st pc); [right; lia|exact En]).
              pose proof (Whs_set_nth (s_hs s) (hasher_index t) (TRunning, HGet) _ En) as E3.
              pose proof (hn_set_nth (s_hs s) (hasher_index t) (TRunning, HGet) _ En) as E4.
              rewrite (idle_nth _ _ _ _ Hidle En ltac:(discriminate)) in E4. change (hw (TRunning, HGet)) with 0%nat in E4. cbn [whasher] in E3.
              unfold Wreader, Wfl, Wjan. cbn [set_hs s_rst s_rtodo s_rpc s_pq s_hs s_hq s_jst s_jpc s_tracked]. lia.
            * rewrite (set_nth_none _ _ _ En). unfold Wreader, Wfl, Wjan. cbn [set_hs s_rst s_rtodo s_rpc s_pq s_hs s_hq s_jst s_jpc s_tracked]. lia. }
      destruct Hst as (S1 & S2 & S3).
      destruct (next_to_start c t) as [t'|] eqn:En; apply Hgo; try assumption; [right; exists t'; split; reflexivity|left; reflexivity].
  - (* hash_queue.get() *)
    destruct (s_hq s) as [|[|idx h exc] r] eqn:Ehq; [contradiction Hen; reflexivity| |].
    + unfold mu, Wmain, Wreader, Wfl, Wjan. cbn [set_mpc set_hq s_mpc s_rst s_rtodo s_rpc s_pq s_hs s_hq s_jst s_jpc s_tracked]. rewrite Empc, Ehq, qn_closed_cons. lia.
    + cbn [set_hq s_seen]. destruct (existsb _ _);
        unfold mu, Wmain, Wreader, Wfl, Wjan; cbn [set_mpc upd_collector set_hq s_mpc s_rst s_rtodo s_rpc s_pq s_hs s_hq s_jst s_jpc s_tracked]; rewrite Empc, Ehq, qn_piece; lia.
  - (* the collector handles the item *)
    set (s1 := set_now s (s_now s + inc)).
    destruct (collect_item_fview c s1 idx h exc) as [E _]. injection E as _ E2 E3 E4 E5 E6 E7 _ _.
    destruct (collect_item_jan c s1 idx h exc) as [J1 J2]. pose proof (collect_item_tracked c s1 idx h exc) as Et.
    unfold mu, Wfl. rewrite (Wreader_eq s1 _ E3 E2 E4), (Wjan_eq s1 _ Et J1 J2), E5, E6, E7.
    assert (Wmain (collect_item c s1 idx h exc) < Wmain s)%nat.
    { unfold Wmain. rewrite Et, E6, Empc. subst s1. cbn [set_now s_tracked s_hs].
      destruct (collect_item_mpc c (set_now s (s_now s + inc)) idx h exc) as [Em|[Em|[e Em]]]; rewrite Em; lia. }
    subst s1. unfold Wreader, Wjan in *. cbn [set_now s_rst s_rtodo s_rpc s_pq s_hs s_hq s_jst s_jpc s_tracked] in *. lia.
  - destruct (s_stop s); [destruct a|]; apply Hpc; unfold Wmain; cbn [set_mpc s_mpc s_tracked s_hs]; rewrite Empc; lia.
  - destruct a; unfold mu, Wmain, Wreader, Wfl, Wjan; cbn [set_mpc set_stop s_mpc s_rst s_rtodo s_rpc s_pq s_hs s_hq s_jst s_jpc s_tracked]; rewrite Empc; lia.
  - destruct (is_alive s 1); apply Hpc; [unfold Wmain; cbn [set_mpc s_mpc s_tracked s_hs]; rewrite Empc; lia|].
    destruct (Wmain_next_hasher s (raise_of o (s_rexc s)) 0) as [H _]. unfold Wmain at 2. rewrite Empc. lia.
  - apply Hpc. destruct (Wmain_next_hasher s (raise_of o (s_rexc s)) 0) as [H _]. unfold Wmain at 2. rewrite Empc. lia.
  - destruct (is_alive s t); apply Hpc; [unfold Wmain; cbn [set_mpc s_mpc s_tracked s_hs]; rewrite Empc; lia|].
    destruct (Wmain_next_hasher s o (S pos)) as [H H0]. unfold Wmain at 2. rewrite Empc.
    destruct (nth_error (s_tracked s) (S pos)) eqn:En; [|rewrite (H0 eq_refl); lia].
    assert (S pos < length (s_tracked s))%nat by (apply nth_error_Some; rewrite En; discriminate). lia.
  - apply Hpc. destruct (Wmain_next_hasher s o (S pos)) as [H H0]. unfold Wmain at 2. rewrite Empc.
    destruct (nth_error (s_tracked s) (S pos)) eqn:En; [|rewrite (H0 eq_refl); lia].
    assert (S pos < length (s_tracked s))%nat by (apply nth_error_Some; rewrite En; discriminate). lia.
  - destruct (is_alive s 2); [apply Hpc; unfold Wmain; cbn [set_mpc s_mpc s_tracked s_hs]; rewrite Empc; lia|].
    unfold finish. destruct o; unfold mu, Wmain, Wreader, Wfl, Wjan; cbn [finish_main s_mpc s_rst s_rtodo s_rpc s_pq s_hs s_hq s_jst s_jpc s_tracked]; rewrite Empc; lia.
  - unfold finish. destruct o; unfold mu, Wmain, Wreader, Wfl, Wjan; cbn [finish_main s_mpc s_rst s_rtodo s_rpc s_pq s_hs s_hq s_jst s_jpc s_tracked]; rewrite Empc; lia.
  - contradiction Hen; reflexivity.
Qed.

(* ---- the vital hasher: once started it is never "new" again, and when it has ended the finalize event is set ---- *)
Definition V (s : state) : Prop :=
  (forall pc, nth_error (s_hs s) 0 = Some (TDone, pc) -> s_final s = true) /\
  (before_h0 (s_mpc s) = false -> s_mdone s = false -> exists st pc, nth_error (s_hs s) 0 = Some (st, pc) /\ st <> TNew).

Lemma nth0_set_nth {X} (l : list X) i x : i <> 0%nat -> nth_error (set_nth l i x) 0 = nth_error l 0.
Proof. intros Hi. destruct l as [|y l]; destruct i as [|i]; try contradiction; reflexivity. Qed.

Lemma nth0_set_nth0 {X} (l : list X) x : l <> [] -> nth_error (set_nth l 0 x) 0 = Some x.
Proof. destruct l; [contradiction|reflexivity]. Qed.

Lemma V_keep s s' : s_hs s' = s_hs s -> (s_final s = true -> s_final s' = true) -> s_mpc s' = s_mpc s -> s_mdone s' = s_mdone s -> V s -> V s'.
Proof. unfold V. intros -> Hf -> -> [A B]. split; [intros pc E; apply Hf; exact (A pc E)|exact B]. Qed.

Lemma step_hasher_V s i a : V s -> V (step_hasher s i a).
Proof.
  intros [A B]. destruct (step_hasher_keep s i a) as (_ & _ & _ & E4 & _ & E6).
  assert (Emd : s_mdone (step_hasher s i a) = s_mdone s) by (unfold step_hasher; break_match; reflexivity).
  unfold step_hasher in *. destruct (nth_error (s_hs s) i) as [[st pc]|] eqn:En; [|split; assumption].
  destruct st; try (split; assumption).
  assert (Hgen : forall s' st' pc', s_hs s' = set_nth (s_hs s) i (st', pc') -> st' <> TNew -> (st' = TDone -> i = 0%nat -> s_final s' = true) ->
                   (s_final s = true -> s_final s' = true) -> s_mpc s' = s_mpc s -> s_mdone s' = s_mdone s -> V s').
  { intros s' st' pc' Eh Hn Hd Hf Em Emd'. split.
    - intros pc0 E0. rewrite Eh in E0. destruct (Nat.eq_dec i 0) as [->|Hi].
      + rewrite nth0_set_nth0 in E0 by (intros C; rewrite C in En; discriminate En). injection E0 as -> _. apply Hd; reflexivity.
      + rewrite (nth0_set_nth _ _ _ Hi) in E0. apply Hf. exact (A pc0 E0).
    - rewrite Em, Emd'. intros H1 H2. destruct (B H1 H2) as (st0 & pc0 & E0 & Hn0). rewrite Eh. destruct (Nat.eq_dec i 0) as [->|Hi].
      + rewrite nth0_set_nth0 by (intros C; rewrite C in En; discriminate En). exists st', pc'. split; [reflexivity|exact Hn].
      + rewrite (nth0_set_nth _ _ _ Hi). exists st0, pc0. split; assumption. }
  destruct pc as [|it| | |]; try (split; assumption).
  - destruct a.
    + destruct (s_pq s) as [|[|idx h exc] r]; [split; assumption| |]; eapply Hgen; try reflexivity; try discriminate; auto.
    + destruct (Nat.eqb i 0) eqn:Ei; [apply (V_keep s); try reflexivity; [auto|split; assumption]|].
      eapply Hgen; try reflexivity; try discriminate; auto. intros _ ->. discriminate Ei.
  - eapply Hgen; try reflexivity; try discriminate; auto.
  - eapply Hgen; try reflexivity; try discriminate; auto.
  - eapply Hgen; try reflexivity; try discriminate; auto.
Qed.

Lemma step_main_V c s inc : (1 <= cf_hashers c)%nat -> TInv c s -> V s -> V (step_main c s inc).
Proof.
  intros Hn1 T HV. pose proof HV as [A B].
  destruct (s_mpc s) eqn:Empc.
  3-13: (destruct (step_main_keep c s inc ltac:(intros t0 E; rewrite Empc in E; discriminate E)) as (_ & _ & E3 & E4 & _);
         split; [intros pc E; rewrite E4 in E; rewrite E3; exact (A pc E)|]; intros _ Hmd; rewrite E4;
         assert (Hmd0 : s_mdone s = false) by (destruct (s_mdone s) eqn:Em; [|reflexivity]; exfalso;
           unfold step_main in Hmd; rewrite Empc in Hmd; revert Hmd; unfold finish; break_match; cbn; rewrite ?Em; try discriminate;
           try (destruct (collect_item_dview c (set_now s (s_now s + inc)) idx h exc) as (_ & _ & _ & _ & _ & _ & _ & Ed & _); rewrite Ed; cbn; rewrite Em; discriminate));
         apply B; [reflexivity|exact Hmd0]).
  - unfold step_main. rewrite Empc. split; cbn [set_mpc s_hs s_final s_mpc s_mdone]; [exact A|]. intros Hb Hmd. apply B; [exact Hb|exact Hmd].
  - { unfold step_main. rewrite Empc. destruct (t_start c s T t (or_intror Empc)) as (_ & Hvalid & _).
  destruct (refused c t) eqn:Eref.
  - destruct ((t =? 1) || (t =? 2) || (t =? 3)) eqn:Ef.
    + split; cbn [finish_main s_hs s_final s_mpc s_mdone]; [exact A|intros _ F; discriminate F].
    + assert (Hb : before_h0 (MStart t) = false) by (cbn; lia).
      destruct (next_to_start c t); (split; cbn [set_mpc s_hs s_final s_mpc s_mdone]; [exact A|intros _ Hmd; apply B; [exact Hb|exact Hmd]]).
  - assert (Hs : (forall pc, nth_error (s_hs (start_thread s t)) 0 = Some (TDone, pc) -> s_final (start_thread s t) = true) /\
                 (s_mdone s = false -> exists st pc, nth_error (s_hs (start_thread s t)) 0 = Some (st, pc) /\ (t <> 1 -> st <> TNew))).
    { destruct (start_thread_keep s t) as (_ & Efin & _). rewrite Efin. unfold start_thread. destruct (t =? 1) eqn:E1.
      - pose proof (reader_next_fields (upd_reader s TRunning RStopRead (s_rtodo s) 0 None) (s_rtodo s) 0) as Hn. cbv zeta in Hn.
        destruct Hn as (_ & _ & _ & F4 & _). rewrite F4. cbn [upd_reader s_hs]. split; [exact A|]. intros _.
        assert (Hne : s_hs s <> []) by (intros C; pose proof (t_len c s T) as L; rewrite C in L; cbn in L; lia).
        destruct (s_hs s) as [|[st pc] l]; [contradiction|]. exists st, pc. split; [reflexivity|]. intros C. exfalso. apply C. lia.
      - destruct (t =? 2) eqn:E2.
        + split; [exact A|]. intros Hmd. destruct (B ltac:(cbn; lia) Hmd) as (st & pc & E0 & Hn). exists st, pc. split; [exact E0|intros _; exact Hn].
        + unfold upd_hasher. cbn [set_hs s_hs]. destruct (Nat.eq_dec (hasher_index t) 0) as [E0|E0].
          * rewrite E0. assert (Hne : s_hs s <> []) by (intros C; pose proof (t_len c s T) as L; rewrite C in L; cbn in L; lia).
            rewrite nth0_set_nth0 by exact Hne. split; [intros pc E; discriminate E|]. intros _. exists TRunning, HGet. split; [reflexivity|intros _; discriminate].
          * rewrite (nth0_set_nth _ _ _ E0). split; [exact A|]. intros Hmd.
            assert (Hb : before_h0 (MStart t) = false) by (cbn; unfold hasher_index in E0; lia).
            destruct (B ltac:(exact Hb) Hmd) as (st & pc & E & Hn). exists st, pc. split; [exact E|intros _; exact Hn]. }
    destruct Hs as [Hs1 Hs2].
    destruct (next_to_start c t) as [t'|] eqn:En; (split; cbn [set_mpc s_hs s_final s_mpc s_mdone]; [exact Hs1|]).
    + intros Hb Hmd. destruct (start_thread_keep s t) as (_ & _ & _ & _ & _). 
      assert (Hmd0 : s_mdone s = false) by (revert Hmd; unfold start_thread, reader_next, upd_hasher; break_match; cbn; auto).
      destruct (Hs2 Hmd0) as (st & pc & E & Hn). exists st, pc. split; [exact E|]. apply Hn. intros ->. cbn in En. injection En as <-. cbn in Hb. discriminate Hb.
    + intros _ Hmd. assert (Hmd0 : s_mdone s = false) by (revert Hmd; unfold start_thread, reader_next, upd_hasher; break_match; cbn; auto).
      destruct (Hs2 Hmd0) as (st & pc & E & Hn). exists st, pc. split; [exact E|]. apply Hn. intros ->. cbn in En. discriminate En. }
Qed.

Lemma step_reader_md s : s_mdone (step_reader s) = s_mdone s.
Proof. unfold step_reader, reader_next. break_match; reflexivity. Qed.
Lemma step_janitor_md s a : s_mdone (step_janitor s a) = s_mdone s.
Proof. unfold step_janitor. break_match; reflexivity. Qed.

Theorem vital_invariant c s : (1 <= cf_hashers c)%nat -> reach c s -> V s.
Proof.
  intros Hn. induction 1 as [|s t a inc Hr IH Hen Hinc].
  - split; cbn.
    + intros pc E. exfalso. destruct (seq 0 (cf_hashers c)); cbn in E; discriminate E.
    + intros F. discriminate F.
  - pose proof (thread_invariant c s Hn Hr) as T.
    unfold step. destruct (t =? 0); [apply step_main_V; assumption|].
    destruct (t =? 1).
    + assert (Hg : forall s0, s_hs s0 = s_hs s -> s_final s0 = s_final s -> s_mpc s0 = s_mpc s -> s_mdone s0 = s_mdone s -> V (step_reader s0)).
      { intros s0 E1 E2 E3 E4. destruct (step_reader_keep s0) as (Ef & Eh & _ & _ & _ & Em & _).
        apply (V_keep s); [rewrite Eh; exact E1|rewrite Ef, E2; auto|rewrite Em; exact E3|rewrite step_reader_md; exact E4|exact IH]. }
      destruct (s_rpc s); apply Hg; reflexivity.
    + destruct (t =? 2).
      * destruct (step_janitor_keep s a) as (_ & _ & E3 & E4 & E5 & _). apply (V_keep s); [exact E4|rewrite E3; auto|exact E5|apply step_janitor_md|exact IH].
      * apply step_hasher_V. exact IH.
Qed.

(* ---- some productive step is always enabled ---- *)
Definition hprod (s : state) (i : nat) : option alt :=
  match nth_error (s_hs s) i with
  | Some (TRunning, HGet) => match s_pq s with [] => if Nat.eqb i 0 then None else Some ATimeout | _ => Some AGo end
  | Some (TRunning, HPutHash _) => Some AGo
  | Some (TRunning, HRequeue) => if pq_has_room s then Some AGo else None
  | Some (TRunning, HSet) => Some AGo
  | _ => None
  end.

Definition jprod (s : state) : option alt :=
  match s_jst s with
  | TRunning =>
      match s_jpc s with
      | JWait => if s_final s then Some AGo else None
      | JWaitAlive (t :: _) => if is_alive s t then None else Some AGo
      | JWaitAlive [] => Some AGo
      | JPruneAlive _ => Some AGo
      | JPutClosed => Some AGo
      | JExit => None
      end
  | _ => None
  end.

Lemma in_options_enabled c s t a : In (t, a) (options c s) -> enabled c s t a = true.
Proof.
  intros H. unfold enabled. apply existsb_exists. exists (t, a). split; [exact H|]. cbn [fst snd].
  rewrite Z.eqb_refl. destruct a; reflexivity.
Qed.

Lemma main_in_options c s a : In a (main_enabled s) -> In (0, a) (options c s).
Proof. intros H. unfold options. apply in_or_app. left. apply in_map. exact H. Qed.
Lemma reader_in_options c s a : In a (reader_enabled s) -> In (1, a) (options c s).
Proof. intros H. unfold options. apply in_or_app. right. apply in_or_app. left. apply in_map. exact H. Qed.
Lemma janitor_in_options c s a : In a (janitor_enabled s) -> In (2, a) (options c s).
Proof. intros H. unfold options. apply in_or_app. right. apply in_or_app. right. apply in_or_app. left. apply in_map. exact H. Qed.

Lemma hprod_step c s i a : (i < cf_hashers c)%nat -> Hp s -> hprod s i = Some a ->
  enabled c s (hasher_tid i) a = true /\ (mu (step c s (hasher_tid i) a 0%Z) < mu s)%nat.
Proof.
  intros Hi Hpp Hh. unfold hprod in Hh. destruct (nth_error (s_hs s) i) as [[st pc]|] eqn:En; [|discriminate Hh].
  destruct st; try discriminate Hh.
  assert (Hst : step c s (hasher_tid i) a 0 = step_hasher s i a).
  { unfold step, hasher_tid. replace (3 + Z.of_nat i =? 0) with false by lia. replace (3 + Z.of_nat i =? 1) with false by lia.
    replace (3 + Z.of_nat i =? 2) with false by lia. unfold hasher_index. replace (Z.to_nat (3 + Z.of_nat i - 3)) with i by lia. reflexivity. }
  assert (Hpiece : forall it, pc = HPutHash it -> is_piece it = true).
  { intros it ->. unfold Hp in Hpp. rewrite Forall_forall in Hpp. exact (Hpp _ (nth_error_In _ _ En) it eq_refl). }
  rewrite Hst. split.
  - apply in_options_enabled. apply hasher_enabled_in_options; [exact Hi|]. unfold hasher_enabled. rewrite En.
    destruct pc as [|it| | |]; try discriminate Hh.
    + destruct (s_pq s); [destruct (Nat.eqb i 0); [discriminate Hh|injection Hh as <-; left; reflexivity]|injection Hh as <-; left; reflexivity].
    + injection Hh as <-. left. reflexivity.
    + destruct (pq_has_room s); [injection Hh as <-; left; reflexivity|discriminate Hh].
    + injection Hh as <-. left. reflexivity.
  - apply (step_hasher_dec s i a pc En); [intros ->; discriminate Hh| |exact Hpiece].
    intros ->. destruct (s_pq s) eqn:Epq.
    + destruct (Nat.eqb i 0) eqn:Ei; [discriminate Hh|]. injection Hh as <-. right. split; [reflexivity|]. intros ->. discriminate Ei.
    + injection Hh as <-. left. split; [reflexivity|discriminate].
Qed.

Lemma jprod_step c s a : DInv c s -> jprod s = Some a ->
  enabled c s 2 a = true /\ (mu (step c s 2%Z a 0%Z) < mu s)%nat.
Proof.
  intros Hd Hj. unfold jprod in Hj. destruct (s_jst s) eqn:Ejst; try discriminate Hj.
  assert (Hst : step c s 2 a 0 = step_janitor s a) by reflexivity. rewrite Hst.
  assert (a = AGo) as -> by (destruct (s_jpc s) as [|[|t r]|l| |]; try destruct (s_final s); try destruct (is_alive s t); try discriminate Hj; injection Hj as <-; reflexivity).
  split.
  - apply in_options_enabled. apply janitor_in_options. unfold janitor_enabled. rewrite Ejst.
    destruct (s_jpc s) as [|[|t r]|l| |]; try (left; reflexivity); [|discriminate Hj]. destruct (s_final s); [left; reflexivity|discriminate Hj].
  - apply step_janitor_dec; [exact Ejst|intros E; rewrite E in Hj; discriminate Hj|intros _; reflexivity|].
    intros t rest E. rewrite E in Hj. destruct (is_alive s t); [discriminate Hj|reflexivity].
Qed.

Lemma mu_set_now s x : mu (set_now s x) = mu s.
Proof. reflexivity. Qed.

Lemma nreq_pos_ex s : (1 <= nreq s)%nat -> exists i, nth_error (s_hs s) i = Some (TRunning, HRequeue).
Proof.
  unfold nreq. intros H. destruct (filter at_requeue (s_hs s)) as [|h l] eqn:E; [cbn in H; lia|].
  assert (Hin : In h (filter at_requeue (s_hs s))) by (rewrite E; left; reflexivity).
  apply filter_In in Hin as [Hin Hh]. destruct h as [[| |] [| | | |]]; try discriminate Hh.
  apply In_nth_error in Hin. exact Hin.
Qed.

Lemma existsb_false {X} (f : X -> bool) l : existsb f l = false -> forall x, In x l -> f x = false.
Proof.
  intros H x Hin. destruct (f x) eqn:E; [|reflexivity]. exfalso.
  assert (existsb f l = true) by (apply existsb_exists; exists x; split; assumption). congruence.
Qed.

Theorem progress c s : (1 <= cf_hashers c)%nat -> reach c s -> s_mdone s = false ->
  exists t a inc, enabled c s t a = true /\ 0 <= inc /\ (mu (step c s t a inc) < mu s)%nat.
Proof.
  intros Hn Hr Hmd.
  pose proof (thread_invariant c s Hn Hr) as T. pose proof (deadlock_invariant c s Hn Hr) as D. pose proof (flow_invariant c s Hr) as Hf.
  destruct (conservation_invariant c s Hn Hr) as [_ Hidle]. destruct (drain_invariant c s Hn Hr) as [_ _ Hpp _ _].
  destruct (vital_invariant c s Hn Hr) as [V1 V2].
  destruct (not_done_facts c s T Hmd) as [Hres Hpc].
  (* main *)
  destruct (main_enabled s) as [|a0 l0] eqn:Emain.
  2: { exists 0, AGo, 0. split; [|split; [lia|]].
       - apply in_options_enabled. apply main_in_options. unfold main_enabled in *. rewrite Hmd in *.
         destruct (s_mpc s); try (left; reflexivity); try discriminate Emain;
           try (destruct (s_hq s); [discriminate Emain|left; reflexivity]);
           try (destruct (s_rst s); try discriminate Emain; left; reflexivity);
           try (destruct (tstate_of s t); try discriminate Emain; left; reflexivity);
           try (destruct (s_jst s); try discriminate Emain; left; reflexivity).
       - change (step c s 0 AGo 0) with (step_main c s 0). apply step_main_dec; try assumption. rewrite Emain. discriminate. }
  (* reader *)
  destruct (reader_enabled s) as [|a1 l1] eqn:Eread.
  2: { assert (Hrun : s_rst s = TRunning) by (unfold reader_enabled in Eread; destruct (s_rst s); [discriminate Eread|reflexivity|discriminate Eread]).
       pose proof (d_rexit c s D Hrun) as Hne.
       exists 1, AGo, 0. split; [|split; [lia|]].
       - apply in_options_enabled. apply reader_in_options. unfold reader_enabled in *. rewrite Hrun in *.
         destruct (s_rpc s); try (left; reflexivity); try contradiction; destruct (pq_has_room s); try discriminate Eread; left; reflexivity.
       - unfold step. cbn [Z.eqb Pos.eqb]. destruct (s_rpc s) eqn:Erpc; try (apply (step_reader_dec c); [exact Hf|exact Hrun|rewrite Erpc; discriminate]).
         + rewrite <- (mu_set_now s (s_now s + 0)). apply (step_reader_dec c); [apply (FInv_of_fview c s); [reflexivity|exact Hf]|exact Hrun|cbn [set_now s_rpc]; rewrite Erpc; discriminate].
         + exfalso. apply Hne. reflexivity. }
  (* hashers *)
  destruct (existsb (fun i => match hprod s i with Some _ => true | None => false end) (seq 0 (cf_hashers c))) eqn:Eh.
  { apply existsb_exists in Eh as (i & Hi & Hx). apply in_seq in Hi. destruct (hprod s i) as [a|] eqn:Ehp; [|discriminate Hx].
    destruct (hprod_step c s i a ltac:(lia) Hpp Ehp) as [E1 E2]. exists (hasher_tid i), a, 0. split; [exact E1|split; [lia|exact E2]]. }
  assert (Hh : forall i, (i < cf_hashers c)%nat -> hprod s i = None).
  { intros i Hi. pose proof (existsb_false _ _ Eh i ltac:(apply in_seq; lia)) as H. cbn beta in H. destruct (hprod s i); [discriminate H|reflexivity]. }
  (* janitor *)
  destruct (jprod s) as [a|] eqn:Ej.
  { destruct (jprod_step c s a D Ej) as [E1 E2]. exists 2, a, 0. split; [exact E1|split; [lia|exact E2]]. }
  exfalso.
  assert (Hlt : forall i st pc, nth_error (s_hs s) i = Some (st, pc) -> (i < cf_hashers c)%nat).
  { intros i st pc E. rewrite <- (t_len c s T). apply nth_error_Some. rewrite E. discriminate. }
  (* main is past the start phase *)
  assert (starting (s_mpc s) = false) as Hns.
  { unfold main_enabled in Emain. rewrite Hmd in Emain. destruct (s_mpc s); try reflexivity; discriminate Emain. }
  assert (before_h0 (s_mpc s) = false) as Hb0 by (destruct (s_mpc s); try reflexivity; discriminate Hns).
  destruct (t_started c s T Hns ltac:(unfold refused_fatal; rewrite Hres; discriminate)) as [Hrn Hjn].
  (* the reader has ended *)
  assert (Erst : s_rst s = TDone).
  { destruct (s_rst s) eqn:Er; [contradiction|exfalso|reflexivity].
    destruct (d_h0 c s D Hmd Hb0 ltac:(rewrite Er; discriminate)) as (pc & Hp0 & Hpc0).
    pose proof (Hh 0%nat ltac:(lia)) as H0. unfold hprod in H0. rewrite Hp0 in H0.
    unfold reader_enabled in Eread. rewrite Er in Eread. pose proof (d_rexit c s D Er) as Hne.
    assert (Hpq : s_pq s <> []).
    { destruct (s_rpc s); try discriminate Eread; try contradiction;
        (destruct (pq_has_room s) eqn:Eroom; [discriminate Eread|]; unfold pq_has_room in Eroom; intros C; rewrite C in Eroom;
         change (zlen (@nil qitem)) with 0 in Eroom; destruct (s_maxsize s <=? 0) eqn:E1; cbn [orb] in Eroom; [discriminate Eroom|];
         replace (0 <? s_maxsize s) with true in Eroom by lia; discriminate Eroom). }
    destruct Hpc0 as [->|[it ->]]; [destruct (s_pq s); [contradiction|discriminate H0]|discriminate H0]. }
  (* no hasher runs *)
  assert (Hnoh : forall i pc, nth_error (s_hs s) i = Some (TRunning, pc) -> False).
  { destruct (d_after c s D Erst) as [(l & El & Fl & Hc)|[Ep Hc]].
    - intros i pc Hi. pose proof (Hh i (Hlt _ _ _ Hi)) as H0. unfold hprod in H0. rewrite Hi in H0.
      destruct pc as [|it| | |]; try discriminate H0.
      + rewrite El in H0. destruct l; discriminate H0.
      + pose proof (filter_nth_pos at_requeue (s_hs s) i (TRunning, HRequeue) Hi eq_refl). unfold nreq in Hc. lia.
      + exact (d_hexit c s D i Hi).
    - exfalso. destruct (nreq_pos_ex s ltac:(lia)) as (i & Hi). pose proof (Hh i (Hlt _ _ _ Hi)) as H0. unfold hprod in H0. rewrite Hi in H0.
      unfold pq_has_room in H0. rewrite Ep in H0. change (zlen (@nil qitem)) with 0 in H0.
      destruct (s_maxsize s <=? 0) eqn:E1; cbn [orb] in H0; [discriminate H0|]. replace (0 <? s_maxsize s) with true in H0 by lia. discriminate H0. }
  (* the janitor has ended *)
  assert (Ejst : s_jst s = TDone).
  { destruct (s_jst s) eqn:Ejs; [contradiction|exfalso|reflexivity].
    unfold jprod in Ej. rewrite Ejs in Ej. destruct (s_jpc s) as [|[|t r]|l| |] eqn:Ejp; try discriminate Ej.
    - destruct (s_final s) eqn:Efin; [discriminate Ej|].
      destruct (V2 Hb0 Hmd) as (st & pc & E0 & Hnew). destruct st; [contradiction|exact (Hnoh _ _ E0)|].
      discriminate (V1 pc E0).
    - destruct (is_alive s t) eqn:Eal; [|discriminate Ej].
      destruct (t_jwait c s T _ Ejs Ejp) as (pre & Et & _).
      assert (Hin : In t (s_tracked s)) by (rewrite Et; apply in_or_app; right; left; reflexivity).
      destruct (t_tracked c s T t Hin) as [H3 _].
      unfold is_alive, tstate_of in Eal. replace (t =? 1) with false in Eal by lia. replace (t =? 2) with false in Eal by lia.
      destruct (nth_error (s_hs s) (hasher_index t)) as [[st pc]|] eqn:En; [|discriminate Eal]. destruct st; try discriminate Eal. exact (Hnoh _ _ En).
    - exact (d_jexit c s D Ejs Ejp). }
  (* main cannot be blocked *)
  unfold main_enabled in Emain. rewrite Hmd in Emain.
  destruct (s_mpc s) as [t|t| |idx h exc|aft|aft|o|o|o pos t|o pos t|o|o|] eqn:Epc; try discriminate Emain.
  - pose proof (d_hq c s D Ejst ltac:(rewrite Epc; reflexivity)) as Hq. destruct (s_hq s); [destruct Hq|discriminate Emain].
  - rewrite Erst in Emain. discriminate Emain.
  - destruct (tstate_of s t) eqn:Et; try discriminate Emain.
    + exact (d_hjoin c s D o pos t Epc Et).
    + unfold tstate_of in Et. destruct (t =? 1) eqn:E1; [congruence|]. destruct (t =? 2) eqn:E2; [congruence|].
      destruct (nth_error (s_hs s) (hasher_index t)) as [[st pc]|] eqn:En; [|discriminate Et]. subst st. exact (Hnoh _ _ En).
  - rewrite Ejst in Emain. discriminate Emain.
  - exact (Hpc eq_refl).
Qed.

(* ---- every call can be completed ---- *)
Inductive steps (c : config) : state -> state -> Prop :=
| st_refl s : steps c s s
| st_step s t a inc s' : enabled c s t a = true -> 0 <= inc -> steps c (step c s t a inc) s' -> steps c s s'.

Lemma steps_reach c s s' : steps c s s' -> reach c s -> reach c s'.
Proof. induction 1 as [s|s t a inc s' Hen Hinc _ IH]; intros Hr; [exact Hr|]. apply IH. apply r_step; assumption. Qed.

(* From every reachable state some schedule leads to a state in which the call has returned. *)
Theorem can_always_finish c s : (1 <= cf_hashers c)%nat -> reach c s ->
  exists s', steps c s s' /\ s_mdone s' = true.
Proof.
  intros Hn. remember (mu s) as m eqn:Em. revert s Em. induction m as [m IH] using lt_wf_ind. intros s Em Hr.
  destruct (s_mdone s) eqn:Hmd; [exists s; split; [apply st_refl|exact Hmd]|].
  destruct (progress c s Hn Hr Hmd) as (t & a & inc & Hen & Hinc & Hlt).
  destruct (IH (mu (step c s t a inc)) ltac:(lia) (step c s t a inc) eq_refl (r_step c s t a inc Hr Hen Hinc)) as (s' & Hs & Hd).
  exists s'. split; [apply (st_step c s t a inc s' Hen Hinc Hs)|exact Hd].
Qed.

(* ... within a number of steps bounded by the measure of the state (a function of the remaining items, the
   queues, the threads' program counters and the number of hashers -- not of the history) *)
Fixpoint nsteps (c : config) (n : nat) (s s' : state) : Prop :=
  match n with
  | O => s' = s
  | S k => s' = s \/ exists t a inc, enabled c s t a = true /\ 0 <= inc /\ nsteps c k (step c s t a inc) s'
  end.

Theorem can_finish_within_measure c s : (1 <= cf_hashers c)%nat -> reach c s ->
  exists s', nsteps c (mu s) s s' /\ s_mdone s' = true.
Proof.
  intros Hn. remember (mu s) as m eqn:Em. assert (Hle : (mu s <= m)%nat) by lia. clear Em. revert s Hle.
  induction m as [|m IH]; intros s Hle Hr.
  - destruct (s_mdone s) eqn:Hmd; [exists s; split; [reflexivity|exact Hmd]|].
    destruct (progress c s Hn Hr Hmd) as (t & a & inc & _ & _ & Hlt). lia.
  - destruct (s_mdone s) eqn:Hmd; [exists s; split; [left; reflexivity|exact Hmd]|].
    destruct (progress c s Hn Hr Hmd) as (t & a & inc & Hen & Hinc & Hlt).
    destruct (IH (step c s t a inc) ltac:(lia) (r_step c s t a inc Hr Hen Hinc)) as (s' & Hs & Hd).
    exists s'. split; [right; exists t, a, inc; repeat split; assumption|exact Hd].
Qed.
