(* VerdictIffIntact.v -- C02/C03, unbounded, the schedule-independent outcome of a verification: with a passive callback,
   a verification run that returns a verdict returns True if and only if the content is intact -- every item the reader
   yields is a readable piece whose hash is the recorded one.  Whatever the schedule, the number of hashers, the
   reporting interval and the clock. *)
From Coq Require Import Lia ZifyBool Permutation.
From Torf Require Import Base Extracted Geometry Stream GeometryProofs IterProofs IterDamage Filesize FilesizeProofs FilesizeAgree
  Pipeline PipelineProofs Tree OrderProofs FlowProofs ThreadProofs DeadlockProofs ConservationProofs ReaderDoneProofs DrainProofs
  VerifyTrueProofs VerifyFalseProofs VerifyFilesizeAgree LastCallProofs LastCallVerify CompleteProofs LastCallVerdict.
Open Scope Z_scope.

Lemma all_rpieces_map Y : forallb is_rpiece Y = true -> exists hs, Y = map RPiece hs.
Proof.
  induction Y as [|r Y IH]; intros H; [exists []; reflexivity|]. cbn [forallb] in H. apply andb_true_iff in H as [H1 H2].
  destruct (IH H2) as [hs ->]. destruct r; try discriminate H1. exists (h :: hs). reflexivity.
Qed.

Theorem verify_quiet_verdict_iff_intact c s expd r :
  (1 <= cf_hashers c)%nat -> reach c s -> cf_verify c = Some expd -> cf_plan c = CbQuiet ->
  Pipeline.zlen (yielded (cf_items c)) = Pipeline.zlen expd ->
  s_result s = Some r -> verdict r ->
  (r = ResTrue <-> yielded (cf_items c) = map RPiece expd).
Proof.
  intros Hn Hr Hv Hp Hlen Hres Hvd. split.
  - intros ->. pose proof (verify_true_means_all_pieces c s expd Hr Hv Hlen Hres) as Hall.
    destruct (all_rpieces_map _ Hall) as [hs HY]. rewrite HY.
    rewrite (verify_true_means_intact c s expd hs Hr Hv HY ltac:(rewrite HY in Hlen; unfold Pipeline.zlen in *; rewrite map_length in Hlen; lia) Hres). reflexivity.
  - intros HY. destruct Hvd as [->| ->]; [reflexivity|exfalso].
    pose proof (verify_false_on_intact_means_stopped c s expd Hn Hr Hv HY Hres) as Hs.
    destruct (quiet_never_stops c s Hp ltac:(rewrite Hv; discriminate) Hr) as [Hs0 _]. rewrite Hs0 in Hs. discriminate Hs.
Qed.
