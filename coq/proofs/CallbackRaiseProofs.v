(* CallbackRaiseProofs.v -- C04, unbounded: a callback's exception reaches the caller.  If the user's callback raised
   during a call, then whatever state the call returns in, it returns by raising that exception (-1) -- or, if the
   reader thread failed as well, the reader's read error, which Python's join re-raises first.  Under every schedule,
   hasher count, input and clock. *)
From Coq Require Import Lia ZifyBool.
From Torf Require Import Base Pipeline PipelineProofs FlowProofs ThreadProofs DrainProofs ReaderDoneProofs ExceptionProofs.
Open Scope Z_scope.

Section CR.
Variable c : config.
Variable k : Z.
Hypothesis Hplan : cf_plan c = CbRaiseFrom k.

(* the callback has been called with done >= k, i.e. it has raised *)
Definition raised (s : state) : Prop := exists d i e, In (d, i, e) (s_calls s) /\ k <= d.

Definition ok_final (e : Z) : Prop := e = -1 \/ okr c e.

Definition carried (s : state) : Prop :=
  match s_mpc s with
  | MStopRead (AFinal (ORaise e)) | MStopWrite (AFinal (ORaise e)) | MRJoinAlive (ORaise e) | MRJoin (ORaise e) => e = -1
  | MHJoinAlive (ORaise e) _ _ | MHJoin (ORaise e) _ _ | MJJoinAlive (ORaise e) | MJJoin (ORaise e) => ok_final e
  | MDone => exists e, s_result s = Some (ResRaise e) /\ ok_final e
  | _ => False
  end.

Definition RS (s : state) : Prop := raised s -> carried s.

Lemma RS_keep s s' : s_calls s' = s_calls s -> s_mpc s' = s_mpc s -> s_result s' = s_result s -> RS s -> RS s'.
Proof. unfold RS, raised, carried. intros -> -> ->. auto. Qed.

(* when the collector makes a call with done >= k, the callback raises *)
Lemma collect_item_raises s idx h exc :
  s_calls (collect_item c s idx h exc) <> s_calls s -> k <= zlen (s_seen s) ->
  s_mpc (collect_item c s idx h exc) = MStopRead (AFinal (ORaise (-1))).
Proof.
  unfold collect_item, has_user_cb, user_cb. rewrite Hplan. intros Hc Hk.
  replace (zlen (s_seen s) >=? k) with true in * by lia.
  destruct (_ || _); [|exfalso; apply Hc; reflexivity].
  destruct (cf_verify c); destruct exc; try destruct (mismatch c idx h); cbn in *; try reflexivity; exfalso; apply Hc; reflexivity.
Qed.

Lemma collect_item_new_calls s idx h exc d i e :
  In (d, i, e) (s_calls (collect_item c s idx h exc)) -> In (d, i, e) (s_calls s) \/ (d = zlen (s_seen s) /\ s_calls (collect_item c s idx h exc) <> s_calls s).
Proof.
  destruct (collect_item_calls c s idx h exc) as (es & Ec & _). rewrite Ec. intros Hin. apply in_app_or in Hin as [Hin|Hin]; [left; exact Hin|right].
  unfold batch in Hin. apply in_map_iff in Hin as (x & E & Hx). injection E as <- _ _. split; [reflexivity|].
  intros C. destruct es; [destruct Hx|]. cbn in C. symmetry in C. rewrite <- app_nil_r in C at 1. apply app_inv_head in C. discriminate C.
Qed.

Lemma RS_vacuous s pc : RS s -> ~ carried s -> RS (set_mpc s pc).
Proof. intros H Hn Hr. exfalso. apply Hn. apply H. exact Hr. Qed.

Lemma RS_move s s' : s_calls s' = s_calls s -> (carried s -> carried s') -> RS s -> RS s'.
Proof. unfold RS, raised. intros -> H HS Hr. apply H. apply HS. exact Hr. Qed.

Lemma step_main_RS s inc : RQ c s -> RS s -> RS (step_main c s inc).
Proof.
  intros (_ & _ & HR) HS. unfold step_main. destruct (s_mpc s) eqn:Empc.
  - apply RS_vacuous; [exact HS|unfold carried; rewrite Empc; auto].
  - assert (Hn : ~ carried s) by (unfold carried; rewrite Empc; auto).
    destruct (refused c t).
    + destruct ((t =? 1) || (t =? 2) || (t =? 3)); [intros Hr; exfalso; apply Hn; apply HS; exact Hr|].
      destruct (next_to_start c t); apply RS_vacuous; assumption.
    + pose proof (start_thread_cview s t) as Ev. unfold cview in Ev. injection Ev as _ E2 _ _.
      destruct (next_to_start c t); intros Hr; exfalso; apply Hn; apply HS; unfold raised in *; cbn [set_mpc s_calls] in Hr; rewrite E2 in Hr; exact Hr.
  - assert (Hn : ~ carried s) by (unfold carried; rewrite Empc; auto).
    destruct (s_hq s) as [|[|idx h exc] r]; [exact HS|apply RS_vacuous; assumption|].
    cbn [set_hq s_seen]. destruct (existsb _ _); intros Hr; exfalso; apply Hn; apply HS; exact Hr.
  - (* the collector handles the item *)
    assert (Hn : ~ carried s) by (unfold carried; rewrite Empc; auto).
    set (s1 := set_now s (s_now s + inc)). intros (d & i & e & Hin & Hk).
    destruct (collect_item_new_calls s1 idx h exc d i e Hin) as [Hold|[-> Hnew]].
    + exfalso. apply Hn. apply HS. exists d, i, e. split; [exact Hold|exact Hk].
    + unfold carried. rewrite (collect_item_raises s1 idx h exc Hnew Hk). reflexivity.
  - destruct (s_stop s); [destruct a as [|[|e]]|destruct a as [|[|e]]]; apply (RS_move s); try reflexivity; try exact HS;
      unfold carried; rewrite Empc; cbn [set_mpc s_mpc]; auto.
  - destruct a as [|[|e]]; apply (RS_move s); try reflexivity; try exact HS; unfold carried; rewrite Empc; cbn [set_mpc set_stop s_mpc]; auto.
  - destruct (is_alive s 1).
    + apply (RS_move s); try reflexivity; try exact HS. unfold carried. rewrite Empc. cbn [set_mpc s_mpc]. auto.
    + apply (RS_move s); try reflexivity; try exact HS. unfold carried. rewrite Empc. cbn [set_mpc s_mpc]. destruct o as [|e]; [contradiction|]. intros ->.
      unfold next_hasher, raise_of. destruct (s_rexc s) as [e0|] eqn:Er; destruct (nth_error (s_tracked s) 0); unfold ok_final; try (left; reflexivity); right; exact (HR e0 eq_refl).
  - apply (RS_move s); try reflexivity; try exact HS. unfold carried. rewrite Empc. cbn [set_mpc s_mpc]. destruct o as [|e]; [contradiction|]. intros ->.
    unfold next_hasher, raise_of. destruct (s_rexc s) as [e0|] eqn:Er; destruct (nth_error (s_tracked s) 0); unfold ok_final; try (left; reflexivity); right; exact (HR e0 eq_refl).
  - destruct (is_alive s t); apply (RS_move s); try reflexivity; try exact HS; unfold carried; rewrite Empc; cbn [set_mpc s_mpc]; auto.
    destruct o as [|e]; [contradiction|]. intros Hc. unfold next_hasher. destruct (nth_error (s_tracked s) (S pos)); exact Hc.
  - apply (RS_move s); try reflexivity; try exact HS. unfold carried. rewrite Empc. cbn [set_mpc s_mpc].
    destruct o as [|e]; [contradiction|]. intros Hc. unfold next_hasher. destruct (nth_error (s_tracked s) (S pos)); exact Hc.
  - destruct (is_alive s 2); [apply (RS_move s); try reflexivity; try exact HS; unfold carried; rewrite Empc; cbn [set_mpc s_mpc]; auto|].
    apply (RS_move s); [unfold finish; destruct o; reflexivity| |exact HS]. unfold carried. rewrite Empc. destruct o as [|e]; [contradiction|].
    intros Hc. unfold finish. cbn [finish_main s_mpc s_result]. exists e. split; [reflexivity|exact Hc].
  - apply (RS_move s); [unfold finish; destruct o; reflexivity| |exact HS]. unfold carried. rewrite Empc. destruct o as [|e]; [contradiction|].
    intros Hc. unfold finish. cbn [finish_main s_mpc s_result]. exists e. split; [reflexivity|exact Hc].
  - exact HS.
Qed.

Theorem raise_invariant s : reach c s -> RS s.
Proof.
  induction 1 as [|s t a inc Hr IH Hen Hinc]; [intros (d & i & e & [] & _)|].
  destruct (exception_invariant c s Hr) as [HRQ _].
  assert (Hv : forall s', cview s' = cview s -> s_result s' = s_result s -> RS s').
  { intros s' E Er. unfold cview in E. injection E as _ E2 E3 _. apply (RS_keep s); assumption. }
  unfold step. destruct (t =? 0); [apply step_main_RS; assumption|].
  destruct (t =? 1).
  - destruct (s_rpc s); apply Hv; try apply step_reader_cview; try (rewrite step_reader_cview; reflexivity);
      try (destruct (step_reader_keep s) as (_ & _ & _ & _ & _ & _ & Er); exact Er).
    destruct (step_reader_keep (set_now s (s_now s + inc))) as (_ & _ & _ & _ & _ & _ & Er). exact Er.
  - destruct (t =? 2); apply Hv; [apply step_janitor_cview|destruct (step_janitor_keep s a) as (_ & _ & _ & _ & _ & E6); exact E6
      |apply step_hasher_cview|destruct (step_hasher_keep s (hasher_index t) a) as (_ & _ & _ & _ & E5 & _); exact E5].
Qed.

(* If the callback raised during the call and the call has returned, it returned by raising the callback's exception
   (or the reader thread's own read error, if that thread failed as well). *)
Theorem callback_exception_reaches_caller s r :
  (1 <= cf_hashers c)%nat -> reach c s -> s_result s = Some r -> raised s -> exists e, r = ResRaise e /\ ok_final e.
Proof.
  intros Hn Hr Hres Hra. pose proof (thread_invariant c s Hn Hr) as T.
  assert (Hmd : s_mpc s = MDone) by (apply (t_done c s T); apply (t_result c s T); rewrite Hres; discriminate).
  pose proof (raise_invariant s Hr Hra) as Hc. unfold carried in Hc. rewrite Hmd in Hc. destruct Hc as (e & Er & He).
  rewrite Hres in Er. injection Er as ->. exists e. split; [reflexivity|exact He].
Qed.
End CR.
