(* ValidateProofs.v -- C07: what a successful Torrent.validate() guarantees
   (structural soundness), derived from the rule table regenerated from the source. *)
From Coq Require Import Lia ZifyBool.
From Torf Require Import Base Sexp Bencode PyVal Extracted Convert Validate Export BencodeProofs ConvertProofs.
Open Scope Z_scope.

Section Val.
Variable is_url : bytes -> bool.

(* ---- reading one rule ---- *)
(* a rule whose path is info/<k>, evaluated on a metainfo whose 'info' is a dict *)
Lemma rule_info_key kvs info k types must check i j :
  dict_get kvs (PStr k_info) = Some (PDict info) ->
  assert_type is_url (PDict kvs)
    {| xr_path := [XK k_info; XK k]; xr_types := types; xr_must := must; xr_check := check |} i j = Ok tt ->
  match dict_get info (PStr k) with
  | Some v => isinstance_any v (map conv_type types) = true /\ run_check is_url check v = true
  | None => must = false
  end.
Proof.
  intros Hinfo H. unfold assert_type in H. cbn [xr_path map key_val walk_keys getitem] in H.
  rewrite Hinfo in H. cbn [bind key_exists] in H.
  destruct (dict_get info (PStr k)) as [v|] eqn:Ev; cbn [negb xr_must] in H.
  - cbn [getitem] in H. rewrite Ev in H. cbn [xr_types xr_check] in H.
    destruct (isinstance_any v (map conv_type types)); cbn [negb] in H; [|destruct (repr_fails v); discriminate].
    destruct (run_check is_url check v); cbn [negb] in H; [auto|destruct (repr_fails v); discriminate].
  - destruct must; [discriminate|reflexivity].
Qed.

(* a top-level rule *)
Lemma rule_top kvs k types must check i j :
  assert_type is_url (PDict kvs)
    {| xr_path := [XK k]; xr_types := types; xr_must := must; xr_check := check |} i j = Ok tt ->
  match dict_get kvs (PStr k) with
  | Some v => isinstance_any v (map conv_type types) = true /\ run_check is_url check v = true
  | None => must = false
  end.
Proof.
  intros H. unfold assert_type in H. cbn [xr_path map key_val walk_keys bind key_exists] in H.
  destruct (dict_get kvs (PStr k)) as [v|] eqn:Ev; cbn [negb xr_must] in H.
  - cbn [getitem] in H. rewrite Ev in H. cbn [xr_types xr_check] in H.
    destruct (isinstance_any v (map conv_type types)); cbn [negb] in H; [|destruct (repr_fails v); discriminate].
    destruct (run_check is_url check v); cbn [negb] in H; [auto|destruct (repr_fails v); discriminate].
  - destruct must; [discriminate|reflexivity].
Qed.

Lemma div16_pos z : ex_is_divisible_by_16_kib z = true -> 0 < z /\ z mod 16384 = 0.
Proof. unfold ex_is_divisible_by_16_kib. destruct (z <=? 0) eqn:E; intros H; [discriminate|]. lia. Qed.

(* ---- structural soundness ---- *)
Definition is_text_or_bytes (v : pyval) : Prop := (exists s, v = PStr s) \/ (exists b, v = PBytes b).

Definition nonneg_number (v : pyval) : Prop :=
  match num_of v with
  | NFin t => 0 <= t
  | NInf neg => neg = false
  | _ => False
  end.

Record sound_common (md : metainfo) (info : list (pyval * pyval)) (L : Z) (pieces : bytes) : Prop := {
  sc_info : dict_get (ensure_info md) (PStr k_info) = Some (PDict info);
  sc_name : exists n, dict_get info (PStr k_name) = Some n /\ is_text_or_bytes n;
  sc_plen : dict_get info (PStr k_piece_length) = Some (PInt L) /\ 0 < L /\ L mod 16384 = 0;
  sc_pieces : dict_get info (PStr k_pieces) = Some (PBytes pieces) /\ pieces <> [] /\
              Z.of_nat (length pieces) mod 20 = 0;
  sc_announce : match dict_get (ensure_info md) (PStr [97; 110; 110; 111; 117; 110; 99; 101]%N) with
                | Some (PStr u) => is_url u = true
                | Some _ => False
                | None => True end
}.

Definition sound (md : metainfo) : Prop :=
  exists info L pieces,
    sound_common md info L pieces /\
    ((* single file *)
     (exists lv, dict_get info (PStr k_length) = Some lv /\ dict_get info (PStr k_files) = None /\
                 nonneg_number lv /\
                 exists t2, num_of lv = NFin t2 /\ Z.of_nat (length pieces) / 20 = cdiv t2 (2 * L))
     \/
     (* multi file *)
     (exists files, (dict_get info (PStr k_files) = Some (PList files) \/ dict_get info (PStr k_files) = Some (PTuple files)) /\
                    dict_get info (PStr k_length) = None /\
                    exists t2, lengths_sum files = NFin t2 /\ Z.of_nat (length pieces) / 20 = cdiv t2 (2 * L))).

Lemma all_rules_cons md r rs i j :
  all_rules is_url md (r :: rs) i j = Ok tt ->
  assert_type is_url md r i j = Ok tt /\ all_rules is_url md rs i j = Ok tt.
Proof.
  cbn [all_rules]. intros H. apply bind_ok in H as ([] & H1 & H2). auto.
Qed.

Lemma isinstance_str_bytes v : isinstance_any v [TStr; TBytes] = true -> is_text_or_bytes v.
Proof.
  unfold isinstance_any, is_text_or_bytes. cbn [existsb]. destruct v; cbn; intros H; try discriminate; eauto.
Qed.

Lemma ceil_div_some total L e : ceil_div total L = Ok (Some e) -> exists t2, total = NFin t2 /\ e = cdiv t2 (2 * L).
Proof. destruct total; cbn; intros H; inversion H; eauto. Qed.

Lemma guarded_ceil_div_some clash total L e : guarded_ceil_div clash total L = Ok (Some e) -> exists t2, total = NFin t2 /\ e = cdiv t2 (2 * L).
Proof. unfold guarded_ceil_div. destruct clash; [discriminate|]. apply ceil_div_some. Qed.

Theorem validate_sound fs md : validate is_url fs md = Ok tt -> sound md.
Proof.
  unfold validate. intros H.
  set (kvs := ensure_info md) in *.
  apply bind_ok in H as ([] & Hcommon & H).
  apply bind_ok in H as ([] & _ & H).
  (* the eight common rules, in the order of the extracted table *)
  unfold ex_rules_common in Hcommon.
  apply all_rules_cons in Hcommon as [R1 Hcommon].
  apply all_rules_cons in Hcommon as [R2 Hcommon].
  apply all_rules_cons in Hcommon as [R3 Hcommon].
  apply all_rules_cons in Hcommon as [R4 Hcommon].
  apply all_rules_cons in Hcommon as [R5 Hcommon].
  apply all_rules_cons in Hcommon as [R6 Hcommon].
  apply all_rules_cons in Hcommon as [R7 Hcommon].
  apply rule_top in R1. fold k_info in R1.
  destruct (dict_get kvs (PStr k_info)) as [iv|] eqn:Einfo; [|discriminate].
  destruct R1 as [R1 _]. destruct iv; try discriminate. rename kvs0 into info.
  apply (rule_info_key kvs info) in R2; [|exact Einfo].
  apply (rule_info_key kvs info) in R3; [|exact Einfo].
  apply (rule_info_key kvs info) in R4; [|exact Einfo].
  apply rule_top in R7.
  fold k_name in R2. fold k_piece_length in R3. fold k_pieces in R4.
  destruct (dict_get info (PStr k_name)) as [nv|] eqn:Ename; [|discriminate].
  destruct (dict_get info (PStr k_piece_length)) as [plv|] eqn:Epl; [|discriminate].
  destruct (dict_get info (PStr k_pieces)) as [pv|] eqn:Epieces; [|discriminate].
  destruct R2 as [R2 _]. destruct R3 as [R3t R3c]. destruct R4 as [R4 _].
  destruct pv; try discriminate. rename b into pieces.
  assert (exists L, plv = PInt L /\ 0 < L /\ L mod 16384 = 0) as (L & -> & HL0 & HLm).
  { destruct plv; try discriminate.
    - cbn [run_check] in R3c. destruct b; cbn in R3c; discriminate.
    - exists z. split; [reflexivity|]. cbn [run_check] in R3c. apply div16_pos. exact R3c. }
  cbn iota in H.
  destruct (Z.of_nat (length pieces) =? 0) eqn:Ez; [discriminate|].
  destruct (negb (Z.of_nat (length pieces) mod 20 =? 0)) eqn:E20; [discriminate|].
  assert (sound_common md info L pieces) as Hsc.
  { constructor.
    - exact Einfo.
    - exists nv. split; [exact Ename|]. apply isinstance_str_bytes. exact R2.
    - split; [exact Epl|]. split; assumption.
    - split; [exact Epieces|]. split; [intros ->; cbn in Ez; discriminate|]. lia.
    - fold kvs. destruct (dict_get kvs (PStr [97; 110; 110; 111; 117; 110; 99; 101]%N)) as [av|]; [|exact I].
      destruct R7 as [R7t R7c]. destruct av; try discriminate. cbn [run_check] in R7c. exact R7c. }
  exists info, L, pieces. split; [exact Hsc|].
  destruct (dict_get info (PStr k_length)) as [lv|] eqn:Elen;
    destruct (dict_get info (PStr k_files)) as [fv|] eqn:Efiles; cbn [andb] in H; try discriminate.
  - (* single file *)
    left. apply bind_ok in H as ([] & Hsingle & H).
    unfold ex_rules_single in Hsingle. apply all_rules_cons in Hsingle as [S1 _].
    apply (rule_info_key kvs info) in S1; [|exact Einfo]. fold k_length in S1. rewrite Elen in S1.
    destruct S1 as [_ S1c].
    apply bind_ok in H as (exp & Hexp & H).
    destruct exp as [e|]; [|cbn in H; discriminate].
    destruct (Z.of_nat (length pieces) / 20 =? e) eqn:Ecount; cbn [negb] in H;
      [|destruct (Z.abs e >=? huge_bound); discriminate].
    apply guarded_ceil_div_some in Hexp as (t2 & Hn & ->).
    exists lv. split; [first [exact Elen|reflexivity]|]. split; [first [exact Efiles|reflexivity]|]. split.
    + unfold nonneg_number. cbn [run_check] in S1c. rewrite Hn in *. lia.
    + exists t2. split; [exact Hn|lia].
  - (* multi file *)
    right. apply bind_ok in H as ([] & _ & H).
    destruct fv; try discriminate.
    + apply bind_ok in H as ([] & _ & H). apply bind_ok in H as (exp & Hexp & H).
      destruct exp as [e|]; [|cbn in H; discriminate].
      destruct (Z.of_nat (length pieces) / 20 =? e) eqn:Ecount; cbn [negb] in H;
        [|destruct (Z.abs e >=? huge_bound); discriminate].
      apply guarded_ceil_div_some in Hexp as (t2 & Hn & ->).
      exists l. split; [left; first [exact Efiles|reflexivity]|]. split; [first [exact Elen|reflexivity]|]. exists t2. split; [exact Hn|lia].
    + apply bind_ok in H as ([] & _ & H). apply bind_ok in H as (exp & Hexp & H).
      destruct exp as [e|]; [|cbn in H; discriminate].
      destruct (Z.of_nat (length pieces) / 20 =? e) eqn:Ecount; cbn [negb] in H;
        [|destruct (Z.abs e >=? huge_bound); discriminate].
      apply guarded_ceil_div_some in Hexp as (t2 & Hn & ->).
      exists l. split; [right; first [exact Efiles|reflexivity]|]. split; [first [exact Elen|reflexivity]|]. exists t2. split; [exact Hn|lia].
Qed.

(* ---- exports happen only after a successful validation; readiness ---- *)
Theorem dump_requires_valid fs md x : dump is_url fs true md = Ok x -> validate is_url fs md = Ok tt.
Proof. unfold dump. intros H. apply bind_ok in H as ([] & Hv & _). exact Hv. Qed.

Theorem infohash_requires_valid fs md h : infohash_input is_url fs md = Ok h -> validate is_url fs md = Ok tt.
Proof. unfold infohash_input. intros H. apply bind_ok in H as ([] & Hv & _). exact Hv. Qed.

Theorem is_ready_iff fs md b :
  is_ready is_url fs md = Ok b -> (b = true <-> validate is_url fs md = Ok tt).
Proof.
  unfold is_ready. destruct (validate is_url fs md) as [[]|e].
  - intros H. inversion H. tauto.
  - destruct e; intros H; inversion H; subst; split; intros; discriminate.
Qed.

End Val.
