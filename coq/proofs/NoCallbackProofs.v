(* NoCallbackProofs.v -- C02, unbounded: without a callback, verification never returns False.  It returns True (and
   then the content is intact) or it raises: under every schedule, hasher count and clock, for content whose items
   are readable pieces or carry at least one error. *)
From Coq Require Import Lia ZifyBool Permutation.
From Torf Require Import Base Pipeline PipelineProofs Tree OrderProofs FlowProofs ThreadProofs DeadlockProofs ConservationProofs ReaderDoneProofs
  DrainProofs ExceptionProofs LastCallProofs VerifyTrueProofs VerifyFalseProofs LastCallVerify CompleteProofs LastCallVerdict ReportProofs.
Open Scope Z_scope.

Section NoCb.
Variable c : config.
Variable expd : list Z.
Hypothesis Hplan : cf_plan c = CbAbsent.
Hypothesis Hver : cf_verify c = Some expd.

(* the collector, without a callback, goes on or raises the first error of the item *)
Lemma collect_item_nocb s idx h exc :
  payload_ok (yielded (cf_items c)) (QPiece idx h exc) ->
  (errs c expd idx = [] /\ s_mpc (collect_item c s idx h exc) = MGet) \/
  (exists e, s_mpc (collect_item c s idx h exc) = MStopRead (AFinal (ORaise e))).
Proof.
  cbn [payload_ok]. intros [_ Hpay]. unfold errs.
  destruct (nth_error (yielded (cf_items c)) (Z.to_nat idx)) as [[x|es| | |e0]|] eqn:En; try contradiction.
  - destruct Hpay as [-> ->]. unfold collect_item, has_user_cb, user_cb, mismatch. rewrite Hplan, Hver.
    destruct (nth (Z.to_nat idx) expd 0 =? x) eqn:Ex; cbn [negb orb].
    + left. split; [reflexivity|]. destruct (_ || _); reflexivity.
    + right. exists 1000. rewrite orb_true_r. reflexivity.
  - destruct Hpay as [-> ->]. destruct es as [|e1 r].
    + left. split; [reflexivity|]. unfold collect_item, has_user_cb, user_cb, mismatch. rewrite Hplan, Hver. destruct (_ || _); reflexivity.
    + right. exists e1. unfold collect_item, has_user_cb, user_cb. rewrite Hplan, Hver. reflexivity.
  - destruct Hpay as [-> ->]. left. split; [reflexivity|]. unfold collect_item, has_user_cb, user_cb, mismatch. rewrite Hplan, Hver. destruct (_ || _); reflexivity.
Qed.

(* main carries an exception *)
Definition raising (s : state) : Prop :=
  (exists e, out_of (s_mpc s) = Some (ORaise e)) \/ (exists e, s_result s = Some (ResRaise e)).

Definition NS (s : state) : Prop :=
  (s_stop s = true -> raising s) /\
  (forall a, s_mpc s = MStopRead a \/ s_mpc s = MStopWrite a -> exists e, a = AFinal (ORaise e)) /\
  (forall idx, In idx (s_seen s) -> (forall h exc, s_mpc s <> MClock idx h exc) -> errs c expd idx = [] \/ raising s).

Lemma raising_keep s s' : s_mpc s' = s_mpc s -> s_result s' = s_result s -> raising s -> raising s'.
Proof. unfold raising. intros -> ->. auto. Qed.

Lemma NS_keep s s' : s_stop s' = s_stop s -> s_mpc s' = s_mpc s -> s_result s' = s_result s -> s_seen s' = s_seen s -> NS s -> NS s'.
Proof. unfold NS, raising. intros -> -> -> ->. auto. Qed.

(* main moves to [pc]; the other fields the invariant reads stay *)
Lemma NS_to s pc :
  (forall idx h exc, s_mpc s <> MClock idx h exc) -> (forall idx h exc, pc <> MClock idx h exc) ->
  (raising s -> raising (set_mpc s pc)) ->
  (forall a, pc = MStopRead a \/ pc = MStopWrite a -> exists e, a = AFinal (ORaise e)) ->
  NS s -> NS (set_mpc s pc).
Proof.
  intros Hnc Hnc' Hr Ha (N1 & _ & N3). split; [|split].
  - cbn [set_mpc s_stop]. intros Hs. apply Hr. exact (N1 Hs).
  - cbn [set_mpc s_mpc]. exact Ha.
  - cbn [set_mpc s_seen s_mpc]. intros idx Hin _. destruct (N3 idx Hin (Hnc idx)) as [E|E]; [left; exact E|right; exact (Hr E)].
Qed.

Lemma raising_pc s pc e : out_of pc = Some (ORaise e) -> raising (set_mpc s pc).
Proof. intros H. left. exists e. exact H. Qed.

Lemma raising_out s : raising s -> s_result s = None -> exists e, out_of (s_mpc s) = Some (ORaise e).
Proof. intros [H|[e H]] Hn; [exact H|rewrite Hn in H; discriminate H]. Qed.

Lemma step_main_NS s inc : reach c s -> TInv c s -> NS s -> NS (step_main c s inc).
Proof.
  intros Hr T HN. pose proof HN as (N1 & N2 & N3).
  destruct (s_mdone s) eqn:Hmd.
  { (* the call has returned: main does not move *)
    assert (Hm : s_mpc s = MDone) by (apply (t_done c s T); exact Hmd). unfold step_main. rewrite Hm. exact HN. }
  destruct (not_done_facts c s T Hmd) as [Hres _].
  assert (Hrs : raising s -> exists e, out_of (s_mpc s) = Some (ORaise e)) by (intros H; exact (raising_out s H Hres)).
  unfold step_main. destruct (s_mpc s) eqn:Empc.
  - apply NS_to; try (intros i0 h0 x0 E0; cbn in E0; rewrite Empc in E0; discriminate E0); try (intros; discriminate); try exact HN; try (apply (NS_keep s); [reflexivity..|exact HN]); [intros H; destruct (Hrs H) as [e E]; discriminate E|intros a [E|E]; discriminate E].
  - assert (Hnr : ~ raising s) by (intros H; destruct (Hrs H) as [e E]; discriminate E).
    assert (Hst : s_stop s = false) by (destruct (s_stop s) eqn:Es; [exfalso; exact (Hnr (N1 eq_refl))|reflexivity]).
    destruct (refused c t).
    + destruct ((t =? 1) || (t =? 2) || (t =? 3)).
      * split; [|split]; cbn [finish_main s_stop s_mpc s_seen s_result]; [rewrite Hst; discriminate|intros a [E|E]; discriminate E|].
        intros idx Hin _. destruct (N3 idx Hin ltac:(intros h exc E; discriminate E)) as [E|E]; [left; exact E|exfalso; exact (Hnr E)].
      * destruct (next_to_start c t); apply NS_to; try (intros i0 h0 x0 E0; cbn in E0; rewrite Empc in E0; discriminate E0); try (intros; discriminate); try exact HN; try (apply (NS_keep s); [reflexivity..|exact HN]);
          try (intros H; exfalso; exact (Hnr H)); intros a [E|E]; discriminate E.
    + assert (HNs : NS (start_thread s t)).
      { pose proof (start_thread_cview s t) as Ev. unfold cview in Ev. injection Ev as E1 _ E3 _.
        destruct (start_thread_keep s t) as (_ & _ & _ & _ & Er).
        apply (NS_keep s); try assumption. unfold start_thread, reader_next, upd_hasher. break_match; reflexivity. }
      assert (Hm' : s_mpc (start_thread s t) = MStart t) by (destruct (start_thread_keep s t) as (_ & _ & _ & Em & _); rewrite Em; exact Empc).
      assert (Hnr' : ~ raising (start_thread s t)).
      { intros [[e E]|[e E]]; [rewrite Hm' in E; discriminate E|]. destruct (start_thread_keep s t) as (_ & _ & _ & _ & Er). rewrite Er, Hres in E. discriminate E. }
      destruct (next_to_start c t); apply NS_to; try (intros i0 h0 x0 E0; cbn in E0; rewrite Empc in E0; discriminate E0); try (intros; discriminate); try exact HNs; try (intros i0 h0 x0 E0; rewrite Hm' in E0; discriminate E0);
        try (intros H; exfalso; exact (Hnr' H)); intros a [E|E]; discriminate E.
  - (* hash_queue.get() *)
    assert (Hnr : ~ raising s) by (intros H; destruct (Hrs H) as [e E]; discriminate E).
    destruct (s_hq s) as [|[|idx h exc] r] eqn:Ehq; [exact HN| |].
    + apply NS_to; try (intros i0 h0 x0 E0; cbn in E0; rewrite Empc in E0; discriminate E0); try (intros; discriminate); try exact HN; try (apply (NS_keep s); [reflexivity..|exact HN]); [intros H; exfalso; exact (Hnr H)|intros a [E|E]; discriminate E].
    + pose proof (no_piece_twice c s idx h exc r Hr Ehq) as Hns. cbn [set_hq s_seen].
      destruct (existsb (Z.eqb idx) (s_seen s)) eqn:Eex.
      { exfalso. apply existsb_exists in Eex as (x & Hx & Ex). apply Hns. replace idx with x by lia. exact Hx. }
      split; [|split]; cbn [set_mpc upd_collector set_hq s_stop s_mpc s_seen s_result].
      * intros Hs. exfalso. exact (Hnr (N1 Hs)).
      * intros a [E|E]; discriminate E.
      * intros idx' Hin Hnc. apply in_app_or in Hin as [Hin|[<-|[]]]; [|exfalso; exact (Hnc h exc eq_refl)].
        destruct (N3 idx' Hin ltac:(intros h' exc' E; discriminate E)) as [E|E]; [left; exact E|exfalso; exact (Hnr E)].
  - (* the collector handles the item *)
    assert (Hnr : ~ raising s) by (intros H; destruct (Hrs H) as [e E]; discriminate E).
    destruct (exception_invariant c s Hr) as [_ (_ & Q2 & _)]. pose proof (Q2 idx h exc Empc) as Hpay.
    set (s1 := set_now s (s_now s + inc)).
    pose proof (collect_item_seen c s1 idx h exc) as Es. pose proof (collect_item_stop c s1 idx h exc) as Est.
    pose proof (collect_item_result_same c s1 idx h exc) as Ers.
    destruct (collect_item_nocb s1 idx h exc Hpay) as [[Herr Em]|[e Em]].
    + split; [|split]; rewrite ?Es, ?Est, ?Em; subst s1; cbn [set_now s_stop s_seen] in *.
      * intros Hs. exfalso. exact (Hnr (N1 Hs)).
      * intros a [E|E]; discriminate E.
      * intros idx' Hin _. destruct (Z.eq_dec idx' idx) as [->|Hne]; [left; exact Herr|].
        destruct (N3 idx' Hin ltac:(intros h' exc' E; injection E as E _ _; congruence)) as [E|E]; [left; exact E|exfalso; exact (Hnr E)].
    + assert (Hra : raising (collect_item c s1 idx h exc)) by (left; exists e; rewrite Em; reflexivity).
      split; [|split]; rewrite ?Es, ?Em.
      * intros _. exact Hra.
      * intros a [E|E]; [injection E as <-; exists e; reflexivity|discriminate E].
      * intros idx' _ _. right. exact Hra.
  - (* reader.stop(): read the flag *)
    destruct (N2 a (or_introl eq_refl)) as [e ->].
    destruct (s_stop s); apply NS_to; try (intros i0 h0 x0 E0; cbn in E0; rewrite Empc in E0; discriminate E0); try (intros; discriminate); try exact HN; try (apply (NS_keep s); [reflexivity..|exact HN]);
      try (intros _; apply (raising_pc s _ e); reflexivity); intros a [E|E]; try discriminate E; injection E as <-; exists e; reflexivity.
  - destruct (N2 a (or_intror eq_refl)) as [e ->].
    split; [|split]; cbn [set_mpc set_stop s_stop s_mpc s_seen s_result].
    + intros _. left. exists e. reflexivity.
    + intros a [E|E]; discriminate E.
    + intros idx' _ _. right. left. exists e. reflexivity.
  - assert (Hro : raising s -> exists e, raise_of o (s_rexc s) = ORaise e).
    { intros H. destruct (Hrs H) as [e E]. cbn in E. injection E as ->. unfold raise_of. destruct (s_rexc s); eexists; reflexivity. }
    destruct (is_alive s 1); apply NS_to; try (intros i0 h0 x0 E0; cbn in E0; rewrite Empc in E0; discriminate E0); try (intros; discriminate); try exact HN; try (apply (NS_keep s); [reflexivity..|exact HN]);
      try (intros; apply next_hasher_not_clock); try (intros a [E|E]; try discriminate E; unfold next_hasher in E; destruct (nth_error _ _); discriminate E).
    + intros H. destruct (Hrs H) as [e E]. left. exists e. exact E.
    + intros H. destruct (Hro H) as [e E]. left. exists e. cbn [set_mpc s_mpc]. rewrite out_of_next_hasher, E. reflexivity.
  - assert (Hro : raising s -> exists e, raise_of o (s_rexc s) = ORaise e).
    { intros H. destruct (Hrs H) as [e E]. cbn in E. injection E as ->. unfold raise_of. destruct (s_rexc s); eexists; reflexivity. }
    apply NS_to; try (intros i0 h0 x0 E0; cbn in E0; rewrite Empc in E0; discriminate E0); try (intros; discriminate); try exact HN; try (apply (NS_keep s); [reflexivity..|exact HN]);
      try (intros; apply next_hasher_not_clock); try (intros a [E|E]; unfold next_hasher in E; destruct (nth_error _ _); discriminate E).
    intros H. destruct (Hro H) as [e E]. left. exists e. cbn [set_mpc s_mpc]. rewrite out_of_next_hasher, E. reflexivity.
  - destruct (is_alive s t); apply NS_to; try (intros i0 h0 x0 E0; cbn in E0; rewrite Empc in E0; discriminate E0); try (intros; discriminate); try exact HN; try (apply (NS_keep s); [reflexivity..|exact HN]);
      try (intros; apply next_hasher_not_clock); try (intros a [E|E]; try discriminate E; unfold next_hasher in E; destruct (nth_error _ _); discriminate E).
    + intros H. destruct (Hrs H) as [e E]. left. exists e. exact E.
    + intros H. destruct (Hrs H) as [e E]. left. exists e. cbn [set_mpc s_mpc]. rewrite out_of_next_hasher. exact E.
  - apply NS_to; try (intros i0 h0 x0 E0; cbn in E0; rewrite Empc in E0; discriminate E0); try (intros; discriminate); try exact HN; try (apply (NS_keep s); [reflexivity..|exact HN]);
      try (intros; apply next_hasher_not_clock); try (intros a [E|E]; unfold next_hasher in E; destruct (nth_error _ _); discriminate E).
    intros H. destruct (Hrs H) as [e E]. left. exists e. cbn [set_mpc s_mpc]. rewrite out_of_next_hasher. exact E.
  - destruct (is_alive s 2).
    + apply NS_to; try (intros i0 h0 x0 E0; cbn in E0; rewrite Empc in E0; discriminate E0); try (intros; discriminate); try exact HN; try (apply (NS_keep s); [reflexivity..|exact HN]); [|intros a [E|E]; discriminate E].
      intros H. destruct (Hrs H) as [e E]. left. exists e. exact E.
    + assert (Hfin : raising s -> raising (finish c s o)).
      { intros H. destruct (Hrs H) as [e E]. cbn in E. injection E as ->. right. exists e. reflexivity. }
      split; [|split]; unfold finish; destruct o; cbn [finish_main s_stop s_mpc s_seen s_result];
        try (intros a [E|E]; discriminate E); try (intros Hs; exact (Hfin (N1 Hs)));
        intros idx Hin _; (destruct (N3 idx Hin ltac:(intros h exc E; discriminate E)) as [E|E]; [left; exact E|right; exact (Hfin E)]).
  - assert (Hfin : raising s -> raising (finish c s o)).
    { intros H. destruct (Hrs H) as [e E]. cbn in E. injection E as ->. right. exists e. reflexivity. }
    split; [|split]; unfold finish; destruct o; cbn [finish_main s_stop s_mpc s_seen s_result];
      try (intros a [E|E]; discriminate E); try (intros Hs; exact (Hfin (N1 Hs)));
      intros idx Hin _; (destruct (N3 idx Hin ltac:(intros h exc E; discriminate E)) as [E|E]; [left; exact E|right; exact (Hfin E)]).
  - exact HN.
Qed.

Theorem nocb_invariant s : (1 <= cf_hashers c)%nat -> reach c s -> NS s.
Proof.
  intros Hn. induction 1 as [|s t a inc Hr IH Hen Hinc].
  - split; [cbn; discriminate|]. split; [intros a [E|E]; discriminate E|intros idx []].
  - pose proof (thread_invariant c s Hn Hr) as T.
    unfold step. destruct (t =? 0); [apply step_main_NS; assumption|].
    destruct (t =? 1).
    + assert (Hg : forall s0, s_stop s0 = s_stop s -> s_mpc s0 = s_mpc s -> s_result s0 = s_result s -> s_seen s0 = s_seen s -> NS (step_reader s0)).
      { intros s0 E1 E2 E3 E4. destruct (step_reader_keep s0) as (_ & _ & _ & _ & _ & Em & Er).
        pose proof (step_reader_cview s0) as Ev. unfold cview in Ev. injection Ev as Es _ _ _.
        apply (NS_keep s); [rewrite step_reader_rd'; exact E1|rewrite Em; exact E2|rewrite Er; exact E3|rewrite Es; exact E4|exact IH]. }
      destruct (s_rpc s); apply Hg; reflexivity.
    + destruct (t =? 2).
      * destruct (step_janitor_rd s a) as (_ & _ & _ & _ & A5). destruct (step_janitor_keep s a) as (_ & _ & _ & _ & E5 & E6).
        pose proof (step_janitor_cview s a) as Ev. unfold cview in Ev. injection Ev as Es _ _ _. apply (NS_keep s); assumption.
      * destruct (step_hasher_rd s (hasher_index t) a) as (_ & _ & _ & _ & A5). destruct (step_hasher_keep s (hasher_index t) a) as (_ & _ & _ & E4 & E5 & _).
        pose proof (step_hasher_cview s (hasher_index t) a) as Ev. unfold cview in Ev. injection Ev as Es _ _ _. apply (NS_keep s); assumption.
Qed.

(* the content has no silent gaps: every item is a readable piece or carries at least one error *)
Definition no_gap (r : rev) : Prop := match r with RPiece _ => True | RExc (_ :: _) => True | _ => False end.

(* Without a callback verification never returns False: a verdict is True, and the content is intact. *)
Theorem verify_without_callback_never_false s r :
  (1 <= cf_hashers c)%nat -> reach c s ->
  Forall no_gap (yielded (cf_items c)) -> Pipeline.zlen (yielded (cf_items c)) = Pipeline.zlen expd ->
  s_result s = Some r -> verdict r ->
  r = ResTrue /\ yielded (cf_items c) = map RPiece expd.
Proof.
  intros Hn Hr Hgap Hlen Hres Hvd.
  pose proof (thread_invariant c s Hn Hr) as T.
  assert (Hmd : s_mpc s = MDone) by (apply (t_done c s T); apply (t_result c s T); rewrite Hres; discriminate).
  destruct (nocb_invariant s Hn Hr) as (N1 & _ & N3).
  assert (Hnr : ~ raising s).
  { intros [[e E]|[e E]]; [rewrite Hmd in E; discriminate E|]. rewrite Hres in E. injection E as ->. destruct Hvd as [V|V]; discriminate V. }
  assert (Hs : s_stop s = false) by (destruct (s_stop s) eqn:Es; [exfalso; exact (Hnr (N1 eq_refl))|reflexivity]).
  destruct (verdict_invariant_rexc c s Hn Hr) as [_ X2]. pose proof (X2 Hmd r Hres Hvd) as Hex.
  pose proof (uncancelled_run_collects_everything c s r Hn Hr Hres Hvd Hs Hex) as Hp.
  set (Y := yielded (cf_items c)) in *.
  assert (HY : Y = map RPiece expd).
  { apply (nth_ext _ _ RNone RNone); [unfold Pipeline.zlen in Hlen; rewrite map_length; lia|].
    intros i Hi.
    assert (Hin : In (Z.of_nat i) (s_seen s)).
    { apply (Permutation_in _ (Permutation_sym Hp)). apply in_map_iff. exists i. split; [reflexivity|]. apply in_seq. unfold nitems, Pipeline.zlen. fold Y. lia. }
    destruct (N3 _ Hin ltac:(intros h exc E; rewrite Hmd in E; discriminate E)) as [He|He]; [|exfalso; exact (Hnr He)].
    unfold errs in He. rewrite Nat2Z.id in He. fold Y in He.
    destruct (nth_error Y i) as [r0|] eqn:En; [|apply nth_error_None in En; lia].
    rewrite (nth_error_nth _ _ _ En).
    rewrite Forall_forall in Hgap. pose proof (Hgap r0 (nth_error_In _ _ En)) as Hg.
    destruct r0 as [x|[|e es]| | |e0]; try contradiction; [|discriminate He].
    destruct (nth i expd 0 =? x) eqn:Ex; [|discriminate He].
    assert (Hix : (i < length expd)%nat) by (unfold Pipeline.zlen in Hlen; lia).
    rewrite (nth_indep _ RNone (RPiece 0)) by (rewrite map_length; exact Hix). rewrite map_nth. f_equal. lia. }
  split; [|exact HY]. destruct Hvd as [->| ->]; [reflexivity|exfalso].
  pose proof (verify_false_on_intact_means_stopped c s expd Hn Hr Hver HY Hres) as Hst. rewrite Hs in Hst. discriminate Hst.
Qed.
End NoCb.
