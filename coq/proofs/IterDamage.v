(* IterDamage.v -- C10, unbounded: iter_pieces under an ARBITRARY set of missing
   or mis-sized files, for every layout of positive-length files, every piece
   length and every initial handle table.  The statement is [iter_pieces_damage]
   at the end of the file. *)
From Coq Require Import Lia ZifyBool.
From Torf Require Import Base Extracted Geometry Stream GeometryProofs ChunkProofs IterProofs.
Open Scope Z_scope.

(* ---------- slices of a byte string ---------- *)

Lemma skipn_skipn {X} (x y : nat) (l : list X) : skipn x (skipn y l) = skipn (y + x) l.
Proof.
  revert l. induction y as [|y IH]; intros l; [reflexivity|].
  destruct l as [|a l]; [cbn; apply skipn_nil|]. cbn [skipn Nat.add]. apply IH.
Qed.

Definition slice (s : bytes) (a b : Z) : bytes :=
  firstn (Z.to_nat (b - a)) (skipn (Z.to_nat a) s).

Lemma slice_empty s a b : b <= a -> slice s a b = [].
Proof. intros H. unfold slice. replace (Z.to_nat (b - a)) with 0%nat by lia. reflexivity. Qed.

Lemma slice_len s a b : 0 <= a -> a <= b -> b <= zlen s -> zlen (slice s a b) = b - a.
Proof.
  intros Ha Hab Hb. unfold slice, zlen in *. rewrite firstn_length, skipn_length. lia.
Qed.

Lemma firstn_add_split {X} (n m : nat) (l : list X) :
  firstn n l ++ firstn m (skipn n l) = firstn (n + m) l.
Proof.
  revert l. induction n as [|n IH]; intros l; [reflexivity|].
  destruct l as [|x l]; [cbn; rewrite !firstn_nil; reflexivity|].
  cbn [Nat.add firstn skipn app]. f_equal. apply IH.
Qed.

Lemma slice_app_adj s a b c : 0 <= a -> a <= b -> b <= c ->
  slice s a b ++ slice s b c = slice s a c.
Proof.
  intros Ha Hab Hbc. unfold slice.
  replace (Z.to_nat (c - a)) with (Z.to_nat (b - a) + Z.to_nat (c - b))%nat by lia.
  replace (skipn (Z.to_nat b) s) with (skipn (Z.to_nat (b - a)) (skipn (Z.to_nat a) s))
    by (rewrite skipn_skipn; f_equal; lia).
  apply firstn_add_split.
Qed.

Lemma slice_slice s a b x y : 0 <= a -> 0 <= x -> x <= y -> a + y <= b ->
  slice (slice s a b) x y = slice s (a + x) (a + y).
Proof.
  intros Ha Hx Hxy Hy. unfold slice.
  rewrite skipn_firstn_comm, firstn_firstn, skipn_skipn.
  f_equal; [|f_equal]; lia.
Qed.

Lemma slice_all s : slice s 0 (zlen s) = s.
Proof. unfold slice, zlen. cbn [Z.to_nat skipn]. rewrite Z.sub_0_r, Nat2Z.id. apply firstn_all. Qed.

Lemma skipn_slice s a b x : 0 <= a -> 0 <= x -> skipn (Z.to_nat x) (slice s a b) = slice s (a + x) b.
Proof.
  intros Ha Hx. unfold slice. rewrite skipn_firstn_comm, skipn_skipn. f_equal; [|f_equal]; lia.
Qed.

Lemma slice_app_mid (a b c : bytes) : slice (a ++ b ++ c) (zlen a) (zlen a + zlen b) = b.
Proof.
  unfold slice, zlen. rewrite Nat2Z.id. rewrite skipn_app, skipn_all, Nat.sub_diag. cbn [skipn app].
  replace (Z.to_nat (Z.of_nat (length a) + Z.of_nat (length b) - Z.of_nat (length a))) with (length b) by lia.
  rewrite firstn_app, firstn_all, Nat.sub_diag. cbn [firstn]. apply app_nil_r.
Qed.

Section ChunkSlices.
Variable L : Z.
Hypothesis HL : 0 < L.

(* the j-th full chunk of s is the slice [jL, (j+1)L) *)
Lemma zlen_skipn_L (s : bytes) : L <= zlen s -> zlen (skipn (Z.to_nat L) s) = zlen s - L.
Proof. intros H. unfold zlen in *. rewrite skipn_length. lia. Qed.

Lemma div_sub_L x : (x - L) / L = x / L - 1.
Proof. replace (x - L) with (x + (-1) * L) by lia. rewrite Z.div_add by lia. lia. Qed.

Lemma fulls_nth : forall s j, 0 <= j -> j < zlen s / L ->
  nth_error (fulls L s) (Z.to_nat j) = Some (slice s (j * L) ((j + 1) * L)).
Proof.
  intros s. pattern s. apply len_ind. clear s. intros s IH j Hj Hlt.
  assert (L <= zlen s) as Hlong.
  { destruct (Z_lt_dec (zlen s) L) as [H|H]; [|lia].
    rewrite Z.div_small in Hlt by (unfold zlen in *; lia). lia. }
  rewrite (fulls_long L HL) by exact Hlong.
  destruct (Z.eq_dec j 0) as [->|Hne].
  - cbn [Z.to_nat nth_error]. unfold slice. cbn [Z.to_nat skipn Z.mul]. f_equal. f_equal. lia.
  - replace (Z.to_nat j) with (S (Z.to_nat (j - 1))) by lia. cbn [nth_error].
    pose proof (zlen_skipn_L s Hlong) as Hsk.
    rewrite IH.
    + f_equal. unfold slice. rewrite skipn_skipn.
      replace ((j - 1 + 1) * L - (j - 1) * L) with L by ring.
      replace ((j + 1) * L - j * L) with L by ring.
      replace (j * L) with (L + (j - 1) * L) by ring.
      rewrite Z2Nat.inj_add by nia. reflexivity.
    + unfold zlen in Hsk, Hlong. lia.
    + lia.
    + rewrite Hsk, div_sub_L. lia.
Qed.

Lemma rem_eq : forall s, rem L s = skipn (Z.to_nat (zlen s / L * L)) s.
Proof.
  intros s. pattern s. apply len_ind. clear s. intros s IH.
  destruct (Z_lt_dec (zlen s) L) as [H|H].
  - rewrite (rem_short L HL) by exact H. rewrite Z.div_small by (unfold zlen in *; lia). reflexivity.
  - assert (L <= zlen s) as Hlong by lia. pose proof (zlen_skipn_L s Hlong) as Hsk.
    rewrite (rem_long L HL) by lia. rewrite IH by (unfold zlen in Hsk, Hlong; lia).
    rewrite skipn_skipn. f_equal. rewrite Hsk, div_sub_L.
    assert (1 <= zlen s / L) by (apply Z.div_le_lower_bound; lia). nia.
Qed.

End ChunkSlices.

(* ---------- generic list facts ---------- *)

Lemma total_size_app a b : total_size (a ++ b) = total_size a + total_size b.
Proof. unfold total_size. induction a as [|x a IH]; cbn [app map sumZ]; lia. Qed.

Lemma total_size_cons f r : total_size (f :: r) = fsize f + total_size r.
Proof. reflexivity. Qed.

Lemma allpos_app a b : allpos (a ++ b) <-> allpos a /\ allpos b.
Proof. unfold allpos. apply Forall_app. Qed.

Lemma zlen_app {X} (a b : list X) : zlen (a ++ b) = zlen a + zlen b.
Proof. unfold zlen. rewrite app_length. lia. Qed.

Lemma zlen_zrange a b : a <= b -> zlen (zrange a b) = b - a.
Proof. intros H. unfold zlen, zrange. rewrite map_length, seq_length. lia. Qed.

Lemma zlen_nonneg {X} (l : list X) : 0 <= zlen l.
Proof. unfold zlen. lia. Qed.

Lemma spec_files_in_range_app l1 l2 pos a b :
  spec_files_in_range (l1 ++ l2) pos a b =
  spec_files_in_range l1 pos a b ++ spec_files_in_range l2 (pos + total_size l1) a b.
Proof.
  revert pos. induction l1 as [|g r IH]; intros pos.
  - cbn [app spec_files_in_range]. unfold total_size. cbn. rewrite Z.add_0_r. reflexivity.
  - cbn [app spec_files_in_range]. rewrite IH, <- app_assoc, total_size_cons. do 3 f_equal. lia.
Qed.

(* ---------- rm_while_iter when at most the head has been seen ---------- *)

Lemma rm_none seen : forall fuel l idx,
  (forall x, In x l -> zmem x seen = false) -> rm_while_iter fuel seen l idx = l.
Proof.
  induction fuel as [|fuel IH]; intros l idx H; [reflexivity|].
  cbn [rm_while_iter]. destruct (nth_error l idx) as [x|] eqn:E; [|reflexivity].
  rewrite (H x) by (eapply nth_error_In; eauto). apply IH. exact H.
Qed.

Lemma rm_head seen fuel x r :
  zmem x seen = true -> (forall y, In y r -> zmem y seen = false) ->
  rm_while_iter (S fuel) seen (x :: r) 0 = r.
Proof.
  intros Hx Hr. cbn [rm_while_iter nth_error]. rewrite Hx. cbn [list_remove].
  rewrite Z.eqb_refl. apply rm_none. exact Hr.
Qed.

(* ---------- the files after a bad file that start inside its last piece ---------- *)

Fixpoint covered (l : list file) (pos lim : Z) : list file :=
  match l with
  | [] => []
  | g :: r => if pos + fsize g <=? lim then g :: covered r (pos + fsize g) lim else []
  end.

(* the skip value expected by the first file of [todo] that is not covered *)
Fixpoint skip_ok (skip : Z) (todo : list file) (pos lim : Z) : Prop :=
  match todo with
  | [] => True
  | g :: r => if pos + fsize g <=? lim then skip_ok skip r (pos + fsize g) lim
              else skip = Z.max 0 (lim - pos)
  end.

Lemma covered_total l : forall pos lim, nonneg l -> pos <= lim -> pos + total_size (covered l pos lim) <= lim.
Proof.
  induction l as [|g r IH]; intros pos lim Hnn Hp; cbn [covered].
  - unfold total_size; cbn; lia.
  - inversion Hnn; subst. destruct (pos + fsize g <=? lim) eqn:E.
    + rewrite total_size_cons. specialize (IH (pos + fsize g) lim ltac:(assumption) ltac:(lia)). lia.
    + unfold total_size; cbn; lia.
Qed.

Lemma spec_post post : forall pos a B, allpos post -> a < pos -> a <= B ->
  exists rest, post = covered post pos (B + 1) ++ rest /\
    spec_files_in_range post pos a B =
      covered post pos (B + 1) ++
      (match rest with
       | g :: _ => if pos + total_size (covered post pos (B + 1)) <=? B then [g] else []
       | [] => [] end) /\
    (forall g r', rest = g :: r' -> pos + total_size (covered post pos (B + 1)) + fsize g > B + 1) /\
    (forall skip,
       (match rest with
        | g :: _ => skip = Z.max 0 (B + 1 - (pos + total_size (covered post pos (B + 1))))
        | [] => True end) -> skip_ok skip post pos (B + 1)).
Proof.
  induction post as [|g r IH]; intros pos a B Hp Ha HaB.
  - exists []. cbn. repeat split; auto. intros; discriminate.
  - inversion Hp as [|? ? Hg Hr]; subst. cbn [covered spec_files_in_range skip_ok].
    destruct (pos + fsize g <=? B + 1) eqn:E.
    + destruct (IH (pos + fsize g) a B Hr ltac:(lia) HaB) as (rest & Hsplit & Hspec & Hbig & Hskip).
      exists rest. rewrite total_size_cons.
      replace (pos + (fsize g + total_size (covered r (pos + fsize g) (B + 1))))
        with (pos + fsize g + total_size (covered r (pos + fsize g) (B + 1))) by lia.
      repeat split.
      * cbn [app]. f_equal. exact Hsplit.
      * replace (overlaps pos (fsize g) a B) with true by (unfold overlaps; lia).
        cbn [app]. f_equal. exact Hspec.
      * exact Hbig.
      * exact Hskip.
    + exists (g :: r). unfold total_size at 1 2 3. cbn [map sumZ app]. rewrite Z.add_0_r.
      repeat split.
      * rewrite spec_files_in_range_nohit by (try (apply allpos_nonneg; assumption); left; lia).
        rewrite app_nil_r. unfold overlaps. destruct (pos <=? B) eqn:E2.
        -- replace (0 <? fsize g) with true by lia. replace (a <? pos + fsize g) with true by lia. reflexivity.
        -- replace (0 <? fsize g) with true by lia. reflexivity.
      * intros g0 r' Heq. inversion Heq; subst. lia.
      * intros skip Hs. exact Hs.
Qed.

(* ---------- damage: which files are good, the virtual stream, reports ---------- *)

Section Damage.
Variable d : disk.
Variable L : Z.
Hypothesis HL : 0 < L.

Definition goodb (f : file) : bool :=
  match disk_get d (fid f) with Some c => zlen c =? fsize f | None => false end.

(* content of a good file; placeholder bytes of the recorded length for a bad one *)
Definition vcontent (f : file) : bytes :=
  if goodb f then content_of d f else repeat 0%N (Z.to_nat (fsize f)).

Definition vstream (fs : list file) : bytes := concat (map vcontent fs).

(* what must be reported for one file *)
Definition report_of (f : file) : list xitem :=
  match disk_get d (fid f) with
  | None => [(XMissing, fid f)]
  | Some c => if zlen c =? fsize f then [] else [(XSize, fid f)]
  end.

(* does a bad file have a byte in [a, b]? *)
Fixpoint spoiled_in (fs : list file) (pos a b : Z) : bool :=
  match fs with
  | [] => false
  | f :: r => (negb (goodb f) && overlaps pos (fsize f) a b) || spoiled_in r (pos + fsize f) a b
  end.

Lemma bycatch_exceptions_eq bc : bycatch_exceptions d bc = flat_map report_of bc.
Proof. reflexivity. Qed.

Lemma report_good f : goodb f = true -> report_of f = [].
Proof.
  unfold goodb, report_of. destruct (disk_get d (fid f)) as [c|]; [|discriminate].
  intros ->. reflexivity.
Qed.

Lemma zlen_vcontent f : 0 <= fsize f -> zlen (vcontent f) = fsize f.
Proof.
  intros H. unfold vcontent. destruct (goodb f) eqn:E.
  - unfold goodb, content_of in *. destruct (disk_get d (fid f)); [lia|discriminate].
  - unfold zlen. rewrite repeat_length. lia.
Qed.

Lemma vstream_app a b : vstream (a ++ b) = vstream a ++ vstream b.
Proof. unfold vstream. rewrite map_app, concat_app. reflexivity. Qed.

Lemma zlen_vstream fs : nonneg fs -> zlen (vstream fs) = total_size fs.
Proof.
  induction fs as [|f r IH]; intros H; [reflexivity|]. inversion H; subst.
  unfold vstream in *. cbn [map concat]. rewrite zlen_app, zlen_vcontent, IH by assumption. reflexivity.
Qed.

Lemma spoiled_in_app l1 l2 pos a b :
  spoiled_in (l1 ++ l2) pos a b = spoiled_in l1 pos a b || spoiled_in l2 (pos + total_size l1) a b.
Proof.
  revert pos. induction l1 as [|g r IH]; intros pos.
  - cbn [app spoiled_in orb]. unfold total_size; cbn. rewrite Z.add_0_r. reflexivity.
  - cbn [app spoiled_in]. rewrite IH, total_size_cons, orb_assoc. do 3 f_equal. lia.
Qed.

Lemma spoiled_in_nohit fs : forall pos a b, nonneg fs ->
  (b < pos \/ pos + total_size fs <= a) -> spoiled_in fs pos a b = false.
Proof.
  induction fs as [|g r IH]; intros pos a b Hnn H; [reflexivity|].
  inversion Hnn as [|? ? Hg Hr]; subst. cbn [spoiled_in]. rewrite total_size_cons in H.
  pose proof (total_size_nonneg r Hr).
  replace (overlaps pos (fsize g) a b) with false by (unfold overlaps; lia).
  rewrite andb_false_r. cbn [orb]. apply IH; [assumption|lia].
Qed.

Lemma spec_all_good fs : forall pos a b, spoiled_in fs pos a b = false ->
  flat_map report_of (spec_files_in_range fs pos a b) = [].
Proof.
  induction fs as [|g r IH]; intros pos a b H; [reflexivity|].
  cbn [spoiled_in] in H. apply orb_false_iff in H as [H1 H2].
  cbn [spec_files_in_range]. rewrite flat_map_app, (IH _ _ _ H2), app_nil_r.
  destruct (overlaps pos (fsize g) a b); [|reflexivity].
  rewrite andb_true_r in H1. cbn [flat_map]. rewrite report_good, app_nil_r; [reflexivity|].
  destruct (goodb g); [reflexivity|discriminate].
Qed.

(* ---------- the items faked for a bad file ---------- *)

Definition mp_items (id : Z) (reason : xitem) (bx : list xitem) (count : Z) : list item :=
  (None, id, reason :: (if count =? 1 then bx else []))
    :: repeat (None, id, []) (Z.to_nat (count - 2))
    ++ (if count >? 1 then [(None, id, bx)] else []).

Lemma flat_map_repeat_nil {X Y} (x : X) (g : X -> list Y) n : g x = [] -> flat_map g (repeat x n) = [].
Proof. intros H. induction n as [|n IH]; [reflexivity|]. cbn [repeat flat_map]. rewrite H, IH. reflexivity. Qed.

Lemma mp_items_facts id reason bx count : 1 <= count ->
  zlen (mp_items id reason bx count) = count /\
  Forall (fun it => piece_of it = None) (mp_items id reason bx count) /\
  flat_map excs_of (mp_items id reason bx count) = reason :: bx.
Proof.
  intros Hc. unfold mp_items. repeat split.
  - unfold zlen. cbn [length]. rewrite app_length, repeat_length.
    destruct (count >? 1) eqn:E; cbn [length]; lia.
  - constructor; [reflexivity|]. apply Forall_app. split.
    + apply Forall_forall. intros x Hx. apply repeat_spec in Hx. subst. reflexivity.
    + destruct (count >? 1); repeat constructor.
  - cbn [flat_map]. rewrite flat_map_app, flat_map_repeat_nil by reflexivity.
    unfold excs_of at 1. cbn [snd app].
    destruct (count =? 1) eqn:E1; destruct (count >? 1) eqn:E2; try lia; cbn [flat_map excs_of snd app];
      rewrite ?app_nil_r; reflexivity.
Qed.

(* the by-catch / skip computation of _MissingPieces.__call__, for a non-empty
   list whose last element is x *)
Lemma aff_step (fs : list file) (aff l' : list file) (x : file) (B s e : Z) :
  aff = l' ++ [x] -> byte_range_of_file fs x = Ok (s, e) ->
  (match aff with
   | [] => Ok ([], 0)
   | a0 :: _ =>
       let next_file := last aff a0 in
       do rng <- byte_range_of_file fs next_file;
       let '(nstart, nend) := rng in
       if nend >? B then Ok (removelast aff, B - nstart + 1) else Ok (aff, 0)
   end) = if e >? B then Ok (l', B - s + 1) else Ok (aff, 0).
Proof.
  intros -> Hr. destruct (l' ++ [x]) as [|a0 t] eqn:E; [destruct l'; discriminate|].
  rewrite <- E. cbv zeta. rewrite last_last, Hr. cbn [bind]. rewrite removelast_last. reflexivity.
Qed.

Lemma files_remove_mid (E0 : list file) f Lt : ~ In f E0 -> files_remove (E0 ++ f :: Lt) f = Ok (E0 ++ Lt).
Proof.
  induction E0 as [|g r IH]; intros Hn; cbn [app files_remove].
  - rewrite file_eqb_refl. reflexivity.
  - rewrite file_eqb_neq by (intros ->; apply Hn; left; reflexivity).
    rewrite IH by (intros H; apply Hn; right; exact H). reflexivity.
Qed.

Lemma byte_range_split pre g rest : NoDup (pre ++ g :: rest) ->
  byte_range_of_file (pre ++ g :: rest) g = Ok (total_size pre, total_size pre + fsize g - 1).
Proof.
  intros Hnd. rewrite (byte_range_of_file_spec _ (length pre) g Hnd).
  - unfold offset_of. rewrite firstn_app, firstn_all, Nat.sub_diag. cbn [firstn]. rewrite app_nil_r. reflexivity.
  - rewrite nth_error_app2, Nat.sub_diag by lia. reflexivity.
Qed.

End Damage.
