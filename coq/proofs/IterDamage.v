(* IterDamage.v -- C10, unbounded: iter_pieces under an ARBITRARY set of missing
   or mis-sized files, for every layout of positive-length files, every piece
   length and every initial handle table.  The statement is [iter_pieces_damage]
   at the end of the file. *)
From Coq Require Import Lia ZifyBool.
From Torf Require Import Base Extracted Geometry Stream GeometryProofs ChunkProofs IterProofs.
Open Scope Z_scope.

(* ---------- slices of a byte string ---------- *)

Lemma skipn_skipn {X} (x y : nat) (l : list X) : skipn x (skipn y l) = skipn (y + x) l.
Proof.
  revert l. induction y as [|y IH]; intros l; [reflexivity|].
  destruct l as [|a l]; [cbn; apply skipn_nil|]. cbn [skipn Nat.add]. apply IH.
Qed.

Definition slice (s : bytes) (a b : Z) : bytes :=
  firstn (Z.to_nat (b - a)) (skipn (Z.to_nat a) s).

Lemma slice_empty s a b : b <= a -> slice s a b = [].
Proof. intros H. unfold slice. replace (Z.to_nat (b - a)) with 0%nat by lia. reflexivity. Qed.

Lemma slice_len s a b : 0 <= a -> a <= b -> b <= zlen s -> zlen (slice s a b) = b - a.
Proof.
  intros Ha Hab Hb. unfold slice, zlen in *. rewrite firstn_length, skipn_length. lia.
Qed.

Lemma firstn_add_split {X} (n m : nat) (l : list X) :
  firstn n l ++ firstn m (skipn n l) = firstn (n + m) l.
Proof.
  revert l. induction n as [|n IH]; intros l; [reflexivity|].
  destruct l as [|x l]; [cbn; rewrite !firstn_nil; reflexivity|].
  cbn [Nat.add firstn skipn app]. f_equal. apply IH.
Qed.

Lemma slice_app_adj s a b c : 0 <= a -> a <= b -> b <= c ->
  slice s a b ++ slice s b c = slice s a c.
Proof.
  intros Ha Hab Hbc. unfold slice.
  replace (Z.to_nat (c - a)) with (Z.to_nat (b - a) + Z.to_nat (c - b))%nat by lia.
  replace (skipn (Z.to_nat b) s) with (skipn (Z.to_nat (b - a)) (skipn (Z.to_nat a) s))
    by (rewrite skipn_skipn; f_equal; lia).
  apply firstn_add_split.
Qed.

Lemma slice_slice s a b x y : 0 <= a -> 0 <= x -> x <= y -> a + y <= b ->
  slice (slice s a b) x y = slice s (a + x) (a + y).
Proof.
  intros Ha Hx Hxy Hy. unfold slice.
  rewrite skipn_firstn_comm, firstn_firstn, skipn_skipn.
  f_equal; [|f_equal]; lia.
Qed.

Lemma slice_all s : slice s 0 (zlen s) = s.
Proof. unfold slice, zlen. cbn [Z.to_nat skipn]. rewrite Z.sub_0_r, Nat2Z.id. apply firstn_all. Qed.

Lemma skipn_slice s a b x : 0 <= a -> 0 <= x -> skipn (Z.to_nat x) (slice s a b) = slice s (a + x) b.
Proof.
  intros Ha Hx. unfold slice. rewrite skipn_firstn_comm, skipn_skipn. f_equal; [|f_equal]; lia.
Qed.

Lemma slice_app_mid (a b c : bytes) : slice (a ++ b ++ c) (zlen a) (zlen a + zlen b) = b.
Proof.
  unfold slice, zlen. rewrite Nat2Z.id. rewrite skipn_app, skipn_all, Nat.sub_diag. cbn [skipn app].
  replace (Z.to_nat (Z.of_nat (length a) + Z.of_nat (length b) - Z.of_nat (length a))) with (length b) by lia.
  rewrite firstn_app, firstn_all, Nat.sub_diag. cbn [firstn]. apply app_nil_r.
Qed.

Section ChunkSlices.
Variable L : Z.
Hypothesis HL : 0 < L.

(* the j-th full chunk of s is the slice [jL, (j+1)L) *)
Lemma zlen_skipn_L (s : bytes) : L <= zlen s -> zlen (skipn (Z.to_nat L) s) = zlen s - L.
Proof. intros H. unfold zlen in *. rewrite skipn_length. lia. Qed.

Lemma div_sub_L x : (x - L) / L = x / L - 1.
Proof. replace (x - L) with (x + (-1) * L) by lia. rewrite Z.div_add by lia. lia. Qed.

Lemma fulls_nth : forall s j, 0 <= j -> j < zlen s / L ->
  nth_error (fulls L s) (Z.to_nat j) = Some (slice s (j * L) ((j + 1) * L)).
Proof.
  intros s. pattern s. apply len_ind. clear s. intros s IH j Hj Hlt.
  assert (L <= zlen s) as Hlong.
  { destruct (Z_lt_dec (zlen s) L) as [H|H]; [|lia].
    rewrite Z.div_small in Hlt by (unfold zlen in *; lia). lia. }
  rewrite (fulls_long L HL) by exact Hlong.
  destruct (Z.eq_dec j 0) as [->|Hne].
  - cbn [Z.to_nat nth_error]. unfold slice. cbn [Z.to_nat skipn Z.mul]. f_equal. f_equal. lia.
  - replace (Z.to_nat j) with (S (Z.to_nat (j - 1))) by lia. cbn [nth_error].
    pose proof (zlen_skipn_L s Hlong) as Hsk.
    rewrite IH.
    + f_equal. unfold slice. rewrite skipn_skipn.
      replace ((j - 1 + 1) * L - (j - 1) * L) with L by ring.
      replace ((j + 1) * L - j * L) with L by ring.
      replace (j * L) with (L + (j - 1) * L) by ring.
      rewrite Z2Nat.inj_add by nia. reflexivity.
    + unfold zlen in Hsk, Hlong. lia.
    + lia.
    + rewrite Hsk, div_sub_L. lia.
Qed.

Lemma rem_eq : forall s, rem L s = skipn (Z.to_nat (zlen s / L * L)) s.
Proof.
  intros s. pattern s. apply len_ind. clear s. intros s IH.
  destruct (Z_lt_dec (zlen s) L) as [H|H].
  - rewrite (rem_short L HL) by exact H. rewrite Z.div_small by (unfold zlen in *; lia). reflexivity.
  - assert (L <= zlen s) as Hlong by lia. pose proof (zlen_skipn_L s Hlong) as Hsk.
    rewrite (rem_long L HL) by lia. rewrite IH by (unfold zlen in Hsk, Hlong; lia).
    rewrite skipn_skipn. f_equal. rewrite Hsk, div_sub_L.
    assert (1 <= zlen s / L) by (apply Z.div_le_lower_bound; lia). nia.
Qed.

End ChunkSlices.

(* ---------- generic list facts ---------- *)

Lemma total_size_app a b : total_size (a ++ b) = total_size a + total_size b.
Proof. unfold total_size. induction a as [|x a IH]; cbn [app map sumZ]; lia. Qed.

Lemma total_size_cons f r : total_size (f :: r) = fsize f + total_size r.
Proof. reflexivity. Qed.

Lemma allpos_app a b : allpos (a ++ b) <-> allpos a /\ allpos b.
Proof. unfold allpos. apply Forall_app. Qed.

Lemma zlen_app {X} (a b : list X) : zlen (a ++ b) = zlen a + zlen b.
Proof. unfold zlen. rewrite app_length. lia. Qed.

Lemma zlen_zrange a b : a <= b -> zlen (zrange a b) = b - a.
Proof. intros H. unfold zlen, zrange. rewrite map_length, seq_length. lia. Qed.

Lemma zlen_nonneg {X} (l : list X) : 0 <= zlen l.
Proof. unfold zlen. lia. Qed.

Lemma spec_files_in_range_app l1 l2 pos a b :
  spec_files_in_range (l1 ++ l2) pos a b =
  spec_files_in_range l1 pos a b ++ spec_files_in_range l2 (pos + total_size l1) a b.
Proof.
  revert pos. induction l1 as [|g r IH]; intros pos.
  - cbn [app spec_files_in_range]. unfold total_size. cbn. rewrite Z.add_0_r. reflexivity.
  - cbn [app spec_files_in_range]. rewrite IH, <- app_assoc, total_size_cons. do 3 f_equal. lia.
Qed.

(* ---------- rm_while_iter when at most the head has been seen ---------- *)

Lemma rm_none seen : forall fuel l idx,
  (forall x, In x l -> zmem x seen = false) -> rm_while_iter fuel seen l idx = l.
Proof.
  induction fuel as [|fuel IH]; intros l idx H; [reflexivity|].
  cbn [rm_while_iter]. destruct (nth_error l idx) as [x|] eqn:E; [|reflexivity].
  rewrite (H x) by (eapply nth_error_In; eauto). apply IH. exact H.
Qed.

Lemma rm_head seen fuel x r :
  zmem x seen = true -> (forall y, In y r -> zmem y seen = false) ->
  rm_while_iter (S fuel) seen (x :: r) 0 = r.
Proof.
  intros Hx Hr. cbn [rm_while_iter nth_error]. rewrite Hx. cbn [list_remove].
  rewrite Z.eqb_refl. apply rm_none. exact Hr.
Qed.

(* ---------- the files after a bad file that start inside its last piece ---------- *)

Fixpoint covered (l : list file) (pos lim : Z) : list file :=
  match l with
  | [] => []
  | g :: r => if pos + fsize g <=? lim then g :: covered r (pos + fsize g) lim else []
  end.

(* the skip value expected by the first file of [todo] that is not covered *)
Fixpoint skip_ok (skip : Z) (todo : list file) (pos lim : Z) : Prop :=
  match todo with
  | [] => True
  | g :: r => if pos + fsize g <=? lim then skip_ok skip r (pos + fsize g) lim
              else skip = Z.max 0 (lim - pos)
  end.

Lemma covered_total l : forall pos lim, nonneg l -> pos <= lim -> pos + total_size (covered l pos lim) <= lim.
Proof.
  induction l as [|g r IH]; intros pos lim Hnn Hp; cbn [covered].
  - unfold total_size; cbn; lia.
  - inversion Hnn; subst. destruct (pos + fsize g <=? lim) eqn:E.
    + rewrite total_size_cons. specialize (IH (pos + fsize g) lim ltac:(assumption) ltac:(lia)). lia.
    + unfold total_size; cbn; lia.
Qed.

Lemma spec_post post : forall pos a B, allpos post -> a < pos -> a <= B ->
  exists rest, post = covered post pos (B + 1) ++ rest /\
    spec_files_in_range post pos a B =
      covered post pos (B + 1) ++
      (match rest with
       | g :: _ => if pos + total_size (covered post pos (B + 1)) <=? B then [g] else []
       | [] => [] end) /\
    (forall g r', rest = g :: r' -> pos + total_size (covered post pos (B + 1)) + fsize g > B + 1) /\
    (forall skip,
       (match rest with
        | g :: _ => skip = Z.max 0 (B + 1 - (pos + total_size (covered post pos (B + 1))))
        | [] => True end) -> skip_ok skip post pos (B + 1)).
Proof.
  induction post as [|g r IH]; intros pos a B Hp Ha HaB.
  - exists []. cbn. repeat split; auto. intros; discriminate.
  - inversion Hp as [|? ? Hg Hr]; subst. cbn [covered spec_files_in_range skip_ok].
    destruct (pos + fsize g <=? B + 1) eqn:E.
    + destruct (IH (pos + fsize g) a B Hr ltac:(lia) HaB) as (rest & Hsplit & Hspec & Hbig & Hskip).
      exists rest. rewrite total_size_cons.
      replace (pos + (fsize g + total_size (covered r (pos + fsize g) (B + 1))))
        with (pos + fsize g + total_size (covered r (pos + fsize g) (B + 1))) by lia.
      repeat split.
      * cbn [app]. f_equal. exact Hsplit.
      * replace (overlaps pos (fsize g) a B) with true by (unfold overlaps; lia).
        cbn [app]. f_equal. exact Hspec.
      * exact Hbig.
      * exact Hskip.
    + exists (g :: r). unfold total_size at 1 2 3. cbn [map sumZ app]. rewrite Z.add_0_r.
      repeat split.
      * rewrite spec_files_in_range_nohit by (try (apply allpos_nonneg; assumption); left; lia).
        rewrite app_nil_r. unfold overlaps. destruct (pos <=? B) eqn:E2.
        -- replace (0 <? fsize g) with true by lia. replace (a <? pos + fsize g) with true by lia. reflexivity.
        -- replace (0 <? fsize g) with true by lia. reflexivity.
      * intros g0 r' Heq. inversion Heq; subst. lia.
      * intros skip Hs. exact Hs.
Qed.

(* ---------- damage: which files are good, the virtual stream, reports ---------- *)

Section Damage.
Variable d : disk.
Variable L : Z.
Hypothesis HL : 0 < L.

Definition goodb (f : file) : bool :=
  match disk_get d (fid f) with Some c => zlen c =? fsize f | None => false end.

(* content of a good file; placeholder bytes of the recorded length for a bad one *)
Definition vcontent (f : file) : bytes :=
  if goodb f then content_of d f else repeat 0%N (Z.to_nat (fsize f)).

Definition vstream (fs : list file) : bytes := concat (map vcontent fs).

(* what must be reported for one file *)
Definition report_of (f : file) : list xitem :=
  match disk_get d (fid f) with
  | None => [(XMissing, fid f)]
  | Some c => if zlen c =? fsize f then [] else [(XSize, fid f)]
  end.

(* does a bad file have a byte in [a, b]? *)
Fixpoint spoiled_in (fs : list file) (pos a b : Z) : bool :=
  match fs with
  | [] => false
  | f :: r => (negb (goodb f) && overlaps pos (fsize f) a b) || spoiled_in r (pos + fsize f) a b
  end.

Lemma bycatch_exceptions_eq bc : bycatch_exceptions d bc = flat_map report_of bc.
Proof. reflexivity. Qed.

Lemma report_good f : goodb f = true -> report_of f = [].
Proof.
  unfold goodb, report_of. destruct (disk_get d (fid f)) as [c|]; [|discriminate].
  intros ->. reflexivity.
Qed.

Lemma zlen_vcontent f : 0 <= fsize f -> zlen (vcontent f) = fsize f.
Proof.
  intros H. unfold vcontent. destruct (goodb f) eqn:E.
  - unfold goodb, content_of in *. destruct (disk_get d (fid f)); [lia|discriminate].
  - unfold zlen. rewrite repeat_length. lia.
Qed.

Lemma vstream_app a b : vstream (a ++ b) = vstream a ++ vstream b.
Proof. unfold vstream. rewrite map_app, concat_app. reflexivity. Qed.

Lemma zlen_vstream fs : nonneg fs -> zlen (vstream fs) = total_size fs.
Proof.
  induction fs as [|f r IH]; intros H; [reflexivity|]. inversion H; subst.
  unfold vstream in *. cbn [map concat]. rewrite zlen_app, zlen_vcontent, IH by assumption. reflexivity.
Qed.

Lemma spoiled_in_app l1 l2 pos a b :
  spoiled_in (l1 ++ l2) pos a b = spoiled_in l1 pos a b || spoiled_in l2 (pos + total_size l1) a b.
Proof.
  revert pos. induction l1 as [|g r IH]; intros pos.
  - cbn [app spoiled_in orb]. unfold total_size; cbn. rewrite Z.add_0_r. reflexivity.
  - cbn [app spoiled_in]. rewrite IH, total_size_cons, orb_assoc.
    replace (pos + fsize g + total_size r) with (pos + (fsize g + total_size r)) by lia. reflexivity.
Qed.

Lemma spoiled_in_nohit fs : forall pos a b, nonneg fs ->
  (b < pos \/ pos + total_size fs <= a) -> spoiled_in fs pos a b = false.
Proof.
  induction fs as [|g r IH]; intros pos a b Hnn H; [reflexivity|].
  inversion Hnn as [|? ? Hg Hr]; subst. cbn [spoiled_in]. rewrite total_size_cons in H.
  pose proof (total_size_nonneg r Hr).
  replace (overlaps pos (fsize g) a b) with false by (unfold overlaps; lia).
  rewrite andb_false_r. cbn [orb]. apply IH; [assumption|lia].
Qed.

Lemma spec_all_good fs : forall pos a b, spoiled_in fs pos a b = false ->
  flat_map report_of (spec_files_in_range fs pos a b) = [].
Proof.
  induction fs as [|g r IH]; intros pos a b H; [reflexivity|].
  cbn [spoiled_in] in H. apply orb_false_iff in H as [H1 H2].
  cbn [spec_files_in_range]. rewrite flat_map_app, (IH _ _ _ H2), app_nil_r.
  destruct (overlaps pos (fsize g) a b); [|reflexivity].
  rewrite andb_true_r in H1. cbn [flat_map]. rewrite report_good, app_nil_r; [reflexivity|].
  destruct (goodb g); [reflexivity|discriminate].
Qed.

(* ---------- the items faked for a bad file ---------- *)

Definition mp_items (id : Z) (reason : xitem) (bx : list xitem) (count : Z) : list item :=
  (None, id, reason :: (if count =? 1 then bx else []))
    :: repeat (None, id, []) (Z.to_nat (count - 2))
    ++ (if count >? 1 then [(None, id, bx)] else []).

Lemma flat_map_repeat_nil {X Y} (x : X) (g : X -> list Y) n : g x = [] -> flat_map g (repeat x n) = [].
Proof. intros H. induction n as [|n IH]; [reflexivity|]. cbn [repeat flat_map]. rewrite H, IH. reflexivity. Qed.

Lemma mp_items_facts id reason bx count : 1 <= count ->
  zlen (mp_items id reason bx count) = count /\
  Forall (fun it => piece_of it = None) (mp_items id reason bx count) /\
  flat_map excs_of (mp_items id reason bx count) = reason :: bx.
Proof.
  intros Hc. unfold mp_items. repeat split.
  - unfold zlen. cbn [length]. rewrite app_length, repeat_length.
    destruct (count >? 1) eqn:E; cbn [length]; lia.
  - constructor; [reflexivity|]. apply Forall_app. split.
    + apply Forall_forall. intros x Hx. apply repeat_spec in Hx. subst. reflexivity.
    + destruct (count >? 1); repeat constructor.
  - cbn [flat_map]. rewrite flat_map_app, flat_map_repeat_nil by reflexivity.
    unfold excs_of at 1. cbn [snd app].
    destruct (count =? 1) eqn:E1; destruct (count >? 1) eqn:E2; try lia; cbn [flat_map excs_of snd app];
      rewrite ?app_nil_r; reflexivity.
Qed.

(* the by-catch / skip computation of _MissingPieces.__call__, for a non-empty
   list whose last element is x *)
Lemma aff_step (fs : list file) (aff l' : list file) (x : file) (B s e : Z) :
  aff = l' ++ [x] -> byte_range_of_file fs x = Ok (s, e) ->
  (match aff with
   | [] => Ok ([], 0)
   | a0 :: _ =>
       let next_file := last aff a0 in
       do rng <- byte_range_of_file fs next_file;
       let '(nstart, nend) := rng in
       if nend >? B then Ok (removelast aff, B - nstart + 1) else Ok (aff, 0)
   end) = if e >? B then Ok (l', B - s + 1) else Ok (aff, 0).
Proof.
  intros -> Hr. destruct (l' ++ [x]) as [|a0 t] eqn:E; [destruct l'; discriminate|].
  rewrite <- E. cbv zeta. rewrite last_last, Hr. cbn [bind]. rewrite removelast_last. reflexivity.
Qed.

Lemma files_remove_mid (E0 : list file) f Lt : ~ In f E0 -> files_remove (E0 ++ f :: Lt) f = Ok (E0 ++ Lt).
Proof.
  induction E0 as [|g r IH]; intros Hn; cbn [app files_remove].
  - rewrite file_eqb_refl. reflexivity.
  - rewrite file_eqb_neq by (intros ->; apply Hn; left; reflexivity).
    rewrite IH by (intros H; apply Hn; right; exact H). reflexivity.
Qed.

Lemma byte_range_split pre g rest : NoDup (pre ++ g :: rest) ->
  byte_range_of_file (pre ++ g :: rest) g = Ok (total_size pre, total_size pre + fsize g - 1).
Proof.
  intros Hnd. rewrite (byte_range_of_file_spec _ (length pre) g Hnd).
  - unfold offset_of. rewrite firstn_app, firstn_all, Nat.sub_diag. cbn [firstn]. rewrite app_nil_r. reflexivity.
  - rewrite nth_error_app2, Nat.sub_diag by lia. reflexivity.
Qed.

End Damage.

(* ---------- evaluation of _MissingPieces.__call__ ---------- *)

Lemma offset_of_app_len done rest : offset_of (done ++ rest) (length done) = total_size done.
Proof. unfold offset_of. rewrite firstn_app, firstn_all, Nat.sub_diag. cbn [firstn]. rewrite app_nil_r. reflexivity. Qed.

Lemma offset_of_app_lt done rest k : (k <= length done)%nat -> offset_of (done ++ rest) k = offset_of done k.
Proof.
  intros H. unfold offset_of. rewrite firstn_app. replace (k - length done)%nat with 0%nat by lia.
  cbn [firstn]. rewrite app_nil_r. reflexivity.
Qed.

Lemma exists_last_or_nil {X} (l : list X) : l = [] \/ exists l' x, l = l' ++ [x].
Proof.
  destruct l as [|a r]; [left; reflexivity|right].
  destruct (exists_last (l := a :: r)) as (l' & x & H); [discriminate|]. exists l', x. exact H.
Qed.

Lemma NoDup_app_r {X} (a b : list X) : NoDup (a ++ b) -> NoDup b.
Proof. induction a as [|x r IH]; [auto|]. cbn [app]. intros H. inversion H; subst. auto. Qed.

Lemma NoDup_mid_notin {X} (a : list X) x b : NoDup (a ++ x :: b) -> ~ In x a.
Proof. intros H Hin. apply NoDup_remove_2 in H. apply H. apply in_or_app. left. exact Hin. Qed.

Section Eval.
Variable d : disk.
Variable L : Z.
Hypothesis HL : 0 < L.

Lemma bycatch_eval done f post a B :
  let fs := done ++ f :: post in
  let o := total_size done in
  let e := o + fsize f in
  NoDup fs -> allpos fs -> a < e -> a <= B -> e - 1 <= B ->
  exists skip,
    (match spec_files_in_range done 0 a B ++ spec_files_in_range post e a B with
     | [] => Ok ([], 0)
     | a0 :: _ =>
         let next_file := last (spec_files_in_range done 0 a B ++ spec_files_in_range post e a B) a0 in
         do rng <- byte_range_of_file fs next_file;
         let '(nstart, nend) := rng in
         if nend >? B then Ok (removelast (spec_files_in_range done 0 a B ++ spec_files_in_range post e a B), B - nstart + 1)
         else Ok (spec_files_in_range done 0 a B ++ spec_files_in_range post e a B, 0)
     end) = Ok (spec_files_in_range done 0 a B ++ covered post e (B + 1), skip)
    /\ skip_ok skip post e (B + 1).
Proof.
  intros fs o e Hnd Hpos Hae HaB HeB.
  assert (allpos done /\ 0 < fsize f /\ allpos post) as (Hpd & Hf & Hpp).
  { apply allpos_app in Hpos as [H1 H2]. inversion H2; subst. auto. }
  destruct (spec_post post e a B Hpp Hae HaB) as (rest & Hsplit & Hspec & Hbig & Hskip).
  set (E0 := spec_files_in_range done 0 a B) in *.
  set (C := covered post e (B + 1)) in *.
  assert (e + total_size C <= B + 1) as HC.
  { apply covered_total; [apply allpos_nonneg; assumption|lia]. }
  rewrite Hspec.
  destruct rest as [|g r'].
  - (* every later file is covered *)
    rewrite app_nil_r. exists 0. split; [|apply Hskip; exact I].
    destruct (exists_last_or_nil C) as [HCn|(C0 & cl & HCe)].
    + rewrite HCn, app_nil_r.
      destruct (exists_last_or_nil E0) as [HEn|(E1 & el & HEe)]; [rewrite HEn; reflexivity|].
      assert (In el E0) as Hel by (rewrite HEe; apply in_or_app; right; left; reflexivity).
      apply spec_files_in_range_In in Hel as (k & Hk & _).
      assert (k < length done)%nat as Hklt by (apply nth_error_Some; congruence).
      assert (byte_range_of_file fs el = Ok (offset_of done k, offset_of done k + fsize el - 1)) as Hbr.
      { rewrite (byte_range_of_file_spec fs k el Hnd).
        - unfold fs. rewrite offset_of_app_lt by lia. reflexivity.
        - unfold fs. rewrite nth_error_app1 by lia. exact Hk. }
      rewrite (aff_step fs E0 E1 el B _ _ HEe Hbr).
      pose proof (offset_end_le_total done k el (allpos_nonneg _ Hpd) Hk) as Hle.
      replace (offset_of done k + fsize el - 1 >? B) with false by (fold o in Hle; lia). reflexivity.
    + assert (fs = (done ++ f :: C0) ++ cl :: []) as Hfs.
      { unfold fs. rewrite Hsplit, app_nil_r, HCe. rewrite <- app_assoc. reflexivity. }
      assert (byte_range_of_file fs cl = Ok (total_size (done ++ f :: C0), total_size (done ++ f :: C0) + fsize cl - 1)) as Hbr.
      { rewrite Hfs. apply byte_range_split. rewrite <- Hfs. exact Hnd. }
      assert (E0 ++ C = (E0 ++ C0) ++ [cl]) as Haff by (rewrite HCe, app_assoc; reflexivity).
      rewrite (aff_step fs (E0 ++ C) (E0 ++ C0) cl B _ _ Haff Hbr).
      rewrite HCe, total_size_app in HC. rewrite total_size_app, total_size_cons.
      unfold total_size at 2 in HC. cbn [map sumZ] in HC. fold o.
      replace (o + (fsize f + total_size C0) + fsize cl - 1 >? B) with false by (unfold e in HC; lia). reflexivity.
  - specialize (Hbig g r' eq_refl).
    destruct (e + total_size C <=? B) eqn:Ecmp.
    + (* g straddles the boundary *)
      exists (B + 1 - (e + total_size C)). split; [|apply Hskip; lia].
      assert (fs = (done ++ f :: C) ++ g :: r') as Hfs.
      { unfold fs. rewrite Hsplit at 1. rewrite <- app_assoc. reflexivity. }
      assert (byte_range_of_file fs g = Ok (total_size (done ++ f :: C), total_size (done ++ f :: C) + fsize g - 1)) as Hbr.
      { rewrite Hfs. apply byte_range_split. rewrite <- Hfs. exact Hnd. }
      assert (E0 ++ C ++ [g] = (E0 ++ C) ++ [g]) as Haff by (rewrite app_assoc; reflexivity).
      rewrite (aff_step fs (E0 ++ C ++ [g]) (E0 ++ C) g B _ _ Haff Hbr).
      rewrite total_size_app, total_size_cons. fold o.
      replace (o + (fsize f + total_size C) + fsize g - 1 >? B) with true by (unfold e in *; lia).
      f_equal. f_equal. unfold e. lia.
    + (* g starts exactly after the boundary *)
      rewrite app_nil_r. exists 0. split; [|apply Hskip; lia].
      destruct (exists_last_or_nil C) as [HCn|(C0 & cl & HCe)].
      * rewrite HCn, app_nil_r.
        destruct (exists_last_or_nil E0) as [HEn|(E1 & el & HEe)]; [rewrite HEn; reflexivity|].
        assert (In el E0) as Hel by (rewrite HEe; apply in_or_app; right; left; reflexivity).
        apply spec_files_in_range_In in Hel as (k & Hk & _).
        assert (k < length done)%nat as Hklt by (apply nth_error_Some; congruence).
        assert (byte_range_of_file fs el = Ok (offset_of done k, offset_of done k + fsize el - 1)) as Hbr.
        { rewrite (byte_range_of_file_spec fs k el Hnd).
          - unfold fs. rewrite offset_of_app_lt by lia. reflexivity.
          - unfold fs. rewrite nth_error_app1 by lia. exact Hk. }
        rewrite (aff_step fs E0 E1 el B _ _ HEe Hbr).
        pose proof (offset_end_le_total done k el (allpos_nonneg _ Hpd) Hk) as Hle.
        replace (offset_of done k + fsize el - 1 >? B) with false by (fold o in Hle; lia). reflexivity.
      * assert (fs = (done ++ f :: C0) ++ cl :: g :: r') as Hfs.
        { unfold fs. rewrite Hsplit at 1. rewrite HCe. rewrite <- !app_assoc. reflexivity. }
        assert (byte_range_of_file fs cl = Ok (total_size (done ++ f :: C0), total_size (done ++ f :: C0) + fsize cl - 1)) as Hbr.
        { rewrite Hfs. apply byte_range_split. rewrite <- Hfs. exact Hnd. }
        assert (E0 ++ C = (E0 ++ C0) ++ [cl]) as Haff by (rewrite HCe, app_assoc; reflexivity).
        rewrite (aff_step fs (E0 ++ C) (E0 ++ C0) cl B _ _ Haff Hbr).
        rewrite HCe, total_size_app in HC. rewrite total_size_app, total_size_cons.
        unfold total_size at 2 in HC. cbn [map sumZ] in HC. fold o.
        replace (o + (fsize f + total_size C0) + fsize cl - 1 >? B) with false by (unfold e in HC; lia). reflexivity.
Qed.

Lemma zmem_false x l : ~ In x l -> zmem x l = false.
Proof. intros H. destruct (zmem x l) eqn:E; [|reflexivity]. apply zmem_In in E. contradiction. Qed.

Lemma missing_pieces_eval done f post st n reason :
  let fs := done ++ f :: post in
  let o := total_size done in
  let e := o + fsize f in
  let plast := (e - 1) / L in
  let B := (plast + 1) * L - 1 in
  NoDup fs -> allpos fs ->
  0 <= n -> n * L < e -> o < n * L + L -> n * L < o + L ->
  (forall x, In x (mp_seen st) -> x < n) ->
  (o < n * L -> In (n - 1) (mp_seen st)) ->
  exists skip,
    missing_pieces d fs L st f reason =
      Ok (mp_items (fid f) reason
            (flat_map (report_of d) (spec_files_in_range done 0 (plast * L) B ++ covered post e (B + 1)))
            (plast - n + 1),
          skip,
          {| mp_seen := mp_seen st ++ zrange n (plast + 1);
             mp_bycatch := mp_bycatch st ++ spec_files_in_range done 0 (plast * L) B ++ covered post e (B + 1) |})
    /\ skip_ok skip post e (B + 1).
Proof.
  intros fs o e plast B Hnd Hpos Hn Hne Hlt Hgt Hseen Hhas.
  assert (allpos done /\ 0 < fsize f /\ allpos post) as (Hpd & Hf & Hpp).
  { apply allpos_app in Hpos as [H1 H2]. inversion H2; subst. auto. }
  pose proof (total_size_nonneg done (allpos_nonneg _ Hpd)) as Ho. fold o in Ho.
  assert (nth_error fs (length done) = Some f) as Hk.
  { unfold fs. rewrite nth_error_app2, Nat.sub_diag by lia. reflexivity. }
  assert (n <= plast) as Hnp by (unfold plast; apply Z.div_le_lower_bound; lia).
  assert (plast * L <= e - 1 < (plast + 1) * L) as Hpl.
  { unfold plast. pose proof (Z.div_mod (e - 1) L ltac:(lia)). pose proof (Z.mod_pos_bound (e - 1) L HL). nia. }
  unfold missing_pieces.
  rewrite (piece_indexes_inclusive_spec fs L (length done) f Hnd Hk HL).
  unfold fs at 1 2. rewrite offset_of_app_len. fold o. fold fs.
  replace (o + fsize f - 1) with (e - 1) by (unfold e; lia). fold plast.
  cbn [bind].
  (* the piece indexes that have not been faked yet *)
  assert (rm_while_iter (length (zrange (o / L) (plast + 1))) (mp_seen st) (zrange (o / L) (plast + 1)) 0
          = zrange n (plast + 1)) as Hrm.
  { assert (forall y, In y (zrange n (plast + 1)) -> zmem y (mp_seen st) = false) as Hfresh.
    { intros y Hy. apply zrange_In in Hy. apply zmem_false. intros Hin. apply Hseen in Hin. lia. }
    destruct (Z_lt_dec o (n * L)) as [Hskipmode|Hgood].
    - assert (o / L = n - 1) as ->.
      { symmetry. apply Z.div_unique with (r := o - (n - 1) * L); lia. }
      rewrite (zrange_cons (n - 1) (plast + 1)) by lia.
      replace (n - 1 + 1) with n by lia. cbn [length].
      apply rm_head; [|exact Hfresh]. apply zmem_In. apply Hhas. exact Hskipmode.
    - assert (o / L = n) as ->.
      { symmetry. apply Z.div_unique with (r := o - n * L); lia. }
      apply rm_none. exact Hfresh. }
  rewrite Hrm.
  pose proof (zrange_cons n (plast + 1) ltac:(lia)) as Hcons.
  pose proof (zrange_last n (plast + 1) n ltac:(lia)) as Hlast.
  pose proof (zlen_zrange n (plast + 1) ltac:(lia)) as Hcount.
  destruct (zrange n (plast + 1)) as [|p0 pt] eqn:Epis; [discriminate|].
  assert (p0 = n) as -> by congruence.
  rewrite Hlast. replace (plast + 1 - 1) with plast by lia.
  (* files in the last faked piece *)
  assert (total_size fs = e + total_size post) as Htot.
  { unfold fs. rewrite total_size_app, total_size_cons. unfold e, o. lia. }
  pose proof (total_size_nonneg post (allpos_nonneg _ Hpp)) as Htp.
  destruct (files_at_piece_index_in_range fs L plast Hpos HL ltac:(lia) ltac:(lia)) as [Hfapi _].
  rewrite Hfapi. cbn [bind].
  replace ((plast + 1) * L - 1) with B by reflexivity.
  unfold fs at 1. rewrite spec_files_in_range_app. cbn [spec_files_in_range].
  rewrite Z.add_0_l. fold o.
  replace (overlaps o (fsize f) (plast * L) B) with true by (unfold overlaps, B; lia).
  cbn [app]. fold e.
  rewrite files_remove_mid.
  2:{ intros Hin. apply spec_files_in_range_In in Hin as (k & Hk' & _).
      apply (NoDup_mid_notin done f post Hnd). eapply nth_error_In; exact Hk'. }
  cbn [bind].
  replace (plast * L + L - 1) with B by (unfold B; lia).
  destruct (bycatch_eval done f post (plast * L) B Hnd Hpos ltac:(fold o; fold e; lia) ltac:(unfold B; lia)
              ltac:(fold o; fold e; unfold B; lia)) as (skip & Hby & Hsk).
  fold o in Hby. fold e in Hby. fold fs in Hby.
  exists skip. split; [|exact Hsk].
  match goal with |- bind ?X _ = _ => replace X with
    (Ok (spec_files_in_range done 0 (plast * L) B ++ covered post e (B + 1), skip) : res (list file * Z)) end.
  cbn [bind]. rewrite Hcount. replace (plast + 1 - n) with (plast - n + 1) by lia.
  rewrite bycatch_exceptions_eq. reflexivity.
Qed.

End Eval.

(* ---------- bookkeeping lemmas for the invariant ---------- *)

Fixpoint bc_ok (bc todo : list file) (pos lim : Z) : Prop :=
  match todo with
  | [] => True
  | g :: r => file_mem g bc = (pos + fsize g <=? lim) /\ bc_ok bc r (pos + fsize g) lim
  end.

Lemma file_mem_In g l : file_mem g l = true <-> In g l.
Proof.
  induction l as [|x r IH]; cbn [file_mem In]; [split; [discriminate|intros []]|].
  rewrite orb_true_iff, IH, file_eqb_spec. tauto.
Qed.

Lemma file_mem_false g l : ~ In g l -> file_mem g l = false.
Proof. intros H. destruct (file_mem g l) eqn:E; [|reflexivity]. apply file_mem_In in E. contradiction. Qed.

Lemma file_mem_app g a b : file_mem g (a ++ b) = file_mem g a || file_mem g b.
Proof. induction a as [|x r IH]; cbn [app file_mem]; [reflexivity|]. rewrite IH, orb_assoc. reflexivity. Qed.

Lemma bc_ok_none bc l : forall pos lim, allpos l -> lim <= pos ->
  (forall g, In g l -> file_mem g bc = false) -> bc_ok bc l pos lim.
Proof.
  induction l as [|g r IH]; intros pos lim Hp Hl Hn; cbn [bc_ok]; [exact I|].
  inversion Hp; subst. split.
  - rewrite Hn by (left; reflexivity). lia.
  - apply IH; [assumption|lia|]. intros g' Hg'. apply Hn. right. exact Hg'.
Qed.

Lemma bc_ok_notin bc l : forall pos lim, bc_ok bc l pos lim -> allpos l -> lim <= pos ->
  forall g, In g l -> file_mem g bc = false.
Proof.
  induction l as [|g r IH]; intros pos lim Hb Hp Hl g' Hg'; [destruct Hg'|].
  inversion Hp as [|? ? Hg0 Hr0]; subst. cbn [bc_ok] in Hb. destruct Hb as [Hb1 Hb2]. destruct Hg' as [<-|Hg'].
  - rewrite Hb1. lia.
  - eapply IH; eauto. lia.
Qed.

Lemma bc_ok_covered l : forall pre pos lim, NoDup l -> allpos l ->
  (forall g, In g l -> file_mem g pre = false) ->
  bc_ok (pre ++ covered l pos lim) l pos lim.
Proof.
  induction l as [|g r IH]; intros pre pos lim Hnd Hp Hpre; cbn [bc_ok covered]; [exact I|].
  inversion Hnd as [|? ? Hnin Hnd']; subst. inversion Hp as [|? ? Hg Hr]; subst.
  destruct (pos + fsize g <=? lim) eqn:E.
  - split.
    + rewrite file_mem_app. cbn [file_mem]. rewrite file_eqb_refl. cbn. apply orb_true_r.
    + replace (pre ++ g :: covered r (pos + fsize g) lim) with ((pre ++ [g]) ++ covered r (pos + fsize g) lim)
        by (rewrite <- app_assoc; reflexivity).
      apply IH; try assumption. intros g' Hg'. rewrite file_mem_app, Hpre by (right; exact Hg').
      cbn [file_mem orb]. rewrite file_eqb_neq; [reflexivity|]. intros ->. contradiction.
  - rewrite app_nil_r. split; [apply Hpre; left; reflexivity|].
    apply bc_ok_none; [assumption|lia|]. intros g' Hg'. apply Hpre. right. exact Hg'.
Qed.

Lemma skip_ok_good l pos lim : lim <= pos -> allpos l -> skip_ok 0 l pos lim.
Proof.
  intros Hl Hp. destruct l as [|g r]; cbn [skip_ok]; [exact I|]. inversion Hp; subst.
  replace (pos + fsize g <=? lim) with false by lia. lia.
Qed.

Lemma covered_nil l pos lim : lim <= pos -> allpos l -> covered l pos lim = [].
Proof.
  intros Hl Hp. destruct l as [|g r]; cbn [covered]; [reflexivity|]. inversion Hp; subst.
  replace (pos + fsize g <=? lim) with false by lia. reflexivity.
Qed.


Lemma zrange_app a b c : a <= b -> b <= c -> zrange a c = zrange a b ++ zrange b c.
Proof.
  intros Hab Hbc. remember (Z.to_nat (b - a)) as k eqn:Ek. revert a Hab Ek.
  induction k as [|k IH]; intros a Hab Ek.
  - assert (a = b) as -> by lia. unfold zrange at 2. rewrite Z.sub_diag. reflexivity.
  - rewrite (zrange_cons a c) by lia. rewrite (zrange_cons a b) by lia. cbn [app]. f_equal.
    apply IH; lia.
Qed.

Lemma map_const_repeat {X Y} (g : X -> Y) (c : Y) l : (forall x, In x l -> g x = c) -> map g l = repeat c (length l).
Proof.
  induction l as [|x r IH]; intros H; [reflexivity|]. cbn [map length repeat].
  rewrite H by (left; reflexivity). f_equal. apply IH. intros y Hy. apply H. right. exact Hy.
Qed.

Lemma list_eq_nth {X} (l1 l2 : list X) : length l1 = length l2 ->
  (forall k, (k < length l1)%nat -> nth_error l1 k = nth_error l2 k) -> l1 = l2.
Proof.
  revert l2. induction l1 as [|x r IH]; intros l2 Hlen H; destruct l2 as [|y r2]; try discriminate; [reflexivity|].
  f_equal.
  - specialize (H 0%nat ltac:(cbn; lia)). cbn in H. congruence.
  - apply IH; [cbn in Hlen; lia|]. intros k Hk. apply (H (S k)). cbn. lia.
Qed.

Lemma fulls_as_map L s : 0 < L ->
  fulls L s = map (fun j => slice s (j * L) ((j + 1) * L)) (zrange 0 (zlen s / L)).
Proof.
  intros HL. pose proof (fulls_length L HL s) as Hlen. pose proof (zlen_nonneg s) as Hs.
  assert (0 <= zlen s / L) as Hq by (apply Z.div_pos; lia).
  apply list_eq_nth.
  - rewrite map_length. unfold zlen in Hlen at 1. unfold zrange. rewrite map_length, seq_length. lia.
  - intros k Hk. unfold zlen in Hlen at 1.
    replace k with (Z.to_nat (Z.of_nat k)) at 1 by lia.
    rewrite (fulls_nth L HL s (Z.of_nat k)) by lia.
    rewrite nth_error_map. unfold zrange. rewrite nth_error_map, Z.sub_0_r.
    rewrite (nth_error_nth' _ 0%nat) by (rewrite seq_length; lia).
    rewrite seq_nth by lia. cbn [option_map]. do 2 f_equal; lia.
Qed.

(* ---------- the invariant of the file loop and the main theorem ---------- *)

Section Main.
Variable d : disk.
Variable L : Z.
Hypothesis HL : 0 < L.
Variable fs : list file.
Hypothesis Hnd : NoDup fs.
Hypothesis Hpos : allpos fs.

Let vs := vstream d fs.
Let total := total_size fs.

(* what the item of piece p must carry *)
Definition expected (p : Z) : option bytes :=
  if spoiled_in d fs 0 (p * L) (Z.min ((p + 1) * L) total - 1) then None
  else Some (slice vs (p * L) (Z.min ((p + 1) * L) total)).

Record inv (done todo : list file) (st : it_state) (acc : list (item * handles)) : Prop := {
  i_split : fs = done ++ todo;
  i_lo : zlen acc * L < total_size done + L;
  i_hi : total_size done < zlen acc * L + L;
  i_trail : it_trailing st = slice vs (zlen acc * L) (total_size done);
  i_bc : bc_ok (mp_bycatch (it_mp st)) todo (total_size done) (zlen acc * L);
  i_skip : skip_ok (it_skip st) todo (total_size done) (zlen acc * L);
  i_seen : forall x, In x (mp_seen (it_mp st)) -> x < zlen acc;
  i_has : total_size done < zlen acc * L -> In (zlen acc - 1) (mp_seen (it_mp st));
  i_clean : forall a b, zlen acc * L <= a -> spoiled_in d done 0 a b = false;
  i_pieces : map piece_of (map fst acc) = map expected (zrange 0 (zlen acc));
  i_reports : flat_map excs_of (map fst acc)
              = flat_map (report_of d) (done ++ covered todo (total_size done) (zlen acc * L))
}.

Lemma vs_split done f post : fs = done ++ f :: post ->
  slice vs (total_size done) (total_size done + fsize f) = vcontent d f.
Proof.
  intros Hs. unfold vs. rewrite Hs. rewrite vstream_app.
  change (vstream d (f :: post)) with (vcontent d f ++ vstream d post).
  assert (allpos done /\ 0 < fsize f) as (Hpd & Hf).
  { rewrite Hs in Hpos. apply allpos_app in Hpos as [H1 H2]. inversion H2; subst. auto. }
  rewrite <- (zlen_vstream d done) by (apply allpos_nonneg; assumption).
  rewrite <- (zlen_vcontent d f) at 1 by lia. apply slice_app_mid.
Qed.

Lemma total_ge done todo : fs = done ++ todo -> total = total_size done + total_size todo.
Proof. intros Hs. unfold total. rewrite Hs. apply total_size_app. Qed.

Lemma zlen_vs : zlen vs = total.
Proof. unfold vs, total. apply zlen_vstream. apply allpos_nonneg. exact Hpos. Qed.

(* a file that already lies inside the faked pieces is skipped *)
Lemma step_covered done f post st acc :
  inv done (f :: post) st acc -> total_size done + fsize f <= zlen acc * L ->
  file_mem f (mp_bycatch (it_mp st)) = true /\ inv (done ++ [f]) post st acc.
Proof.
  intros I Hcov. destruct I. cbn [bc_ok] in i_bc0. destruct i_bc0 as [Hmem Hbc].
  cbn [skip_ok covered] in *.
  replace (total_size done + fsize f <=? zlen acc * L) with true in * by lia.
  assert (0 < fsize f) as Hf.
  { rewrite i_split0 in Hpos. apply allpos_app in Hpos as [_ H2]. inversion H2; subst. assumption. }
  split; [exact Hmem|].
  assert (total_size (done ++ [f]) = total_size done + fsize f) as Ht.
  { rewrite total_size_app. unfold total_size. cbn [map sumZ]. lia. }
  constructor; rewrite ?Ht.
  - rewrite i_split0, <- app_assoc. reflexivity.
  - lia.
  - lia.
  - rewrite i_trail0. rewrite !slice_empty by lia. reflexivity.
  - exact Hbc.
  - exact i_skip0.
  - exact i_seen0.
  - intros H. apply i_has0. lia.
  - intros a b Ha. rewrite spoiled_in_app, i_clean0 by exact Ha. cbn [spoiled_in orb].
    replace (overlaps (0 + total_size done) (fsize f) a b) with false by (unfold overlaps; lia).
    rewrite andb_false_r. reflexivity.
  - exact i_pieces0.
  - rewrite i_reports0, <- app_assoc. reflexivity.
Qed.

Lemma goodb_true f c : disk_get d (fid f) = Some c -> zlen c = fsize f -> goodb d f = true /\ vcontent d f = c.
Proof.
  intros Hc Hz. unfold vcontent, goodb, content_of. rewrite Hc.
  replace (zlen c =? fsize f) with true by lia. auto.
Qed.

Lemma expected_clean p done post :
  fs = done ++ post -> 0 <= p ->
  spoiled_in d done 0 (p * L) ((p + 1) * L - 1) = false ->
  (p + 1) * L <= total_size done ->
  expected p = Some (slice vs (p * L) ((p + 1) * L)).
Proof.
  intros Hs Hp Hcl Hle. unfold expected.
  assert (allpos post) as Hpp by (rewrite Hs in Hpos; apply allpos_app in Hpos as [_ H]; exact H).
  pose proof (total_size_nonneg post (allpos_nonneg _ Hpp)) as Htp.
  pose proof (total_ge done post Hs) as Ht.
  rewrite Z.min_l by lia.
  rewrite Hs at 1. rewrite spoiled_in_app, Hcl. cbn [orb].
  rewrite spoiled_in_nohit; [reflexivity|apply allpos_nonneg; exact Hpp|left; lia].
Qed.

Lemma real_items_no_reports (id : Z) (h : handles) (l : list bytes) :
  flat_map excs_of (map fst (map (fun p => ((Some p, id, []), h)) l)) = [].
Proof. induction l as [|x r IH]; [reflexivity|exact IH]. Qed.

Lemma step_good done f post st acc c h' :
  inv done (f :: post) st acc -> zlen acc * L < total_size done + fsize f ->
  disk_get d (fid f) = Some c -> zlen c = fsize f ->
  let data := slice vs (zlen acc * L) (total_size done + fsize f) in
  file_mem f (mp_bycatch (it_mp st)) = false /\
  pieces_from_handle L (it_trailing st) (skipn (Z.to_nat (it_skip st)) c) = chunks L data /\
  inv (done ++ [f]) post
      {| it_trailing := rem L data; it_skip := 0; it_mp := it_mp st; it_h := h'; it_lastfile := fid f |}
      (acc ++ map (fun p => ((Some p, fid f, []), h')) (fulls L data)).
Proof.
  intros I Hnc Hc Hz data. destruct I.
  set (n := zlen acc) in *. set (o := total_size done) in *. set (e := o + fsize f) in *.
  cbn [bc_ok] in i_bc0. destruct i_bc0 as [Hmem Hbc].
  cbn [skip_ok covered] in *. fold e in Hmem, i_skip0, i_reports0, Hbc.
  replace (e <=? n * L) with false in * by lia.
  assert (allpos done /\ 0 < fsize f /\ allpos post) as (Hpd & Hf & Hpp).
  { rewrite i_split0 in Hpos. apply allpos_app in Hpos as [H1 H2]. inversion H2; subst. auto. }
  pose proof (total_size_nonneg done (allpos_nonneg _ Hpd)) as Ho. fold o in Ho.
  pose proof (total_size_nonneg post (allpos_nonneg _ Hpp)) as Htp.
  pose proof (total_ge done (f :: post) i_split0) as Htot. rewrite total_size_cons in Htot. fold o in Htot.
  pose proof (zlen_nonneg acc) as Hn0. fold n in Hn0.
  destruct (goodb_true f c Hc Hz) as [Hgood Hvc].
  pose proof (vs_split done f post i_split0) as Hslice. fold o in Hslice. fold e in Hslice. rewrite Hvc in Hslice.
  split; [exact Hmem|].
  (* the bytes that are cut into pieces *)
  assert (it_trailing st ++ skipn (Z.to_nat (it_skip st)) c = data /\ zlen (it_trailing st) < L) as [Hdata Hshort].
  { rewrite i_trail0, i_skip0. destruct (Z_lt_dec o (n * L)) as [Hsk|Hgd].
    - rewrite slice_empty by lia. cbn [app]. rewrite Z.max_r by lia.
      rewrite <- Hslice, skipn_slice by lia. unfold data. split; [f_equal; lia|unfold zlen; cbn; lia].
    - rewrite Z.max_l by lia. cbn [Z.to_nat skipn]. rewrite <- Hslice. split.
      + apply slice_app_adj; lia.
      + rewrite slice_len; rewrite ?zlen_vs; lia. }
  split; [rewrite (pieces_from_handle_eq L HL) by exact Hshort; rewrite Hdata; reflexivity|].
  assert (zlen data = e - n * L) as Hdl by (unfold data; rewrite slice_len; rewrite ?zlen_vs; lia).
  set (m := zlen data / L).
  assert (0 <= m) as Hm0 by (apply Z.div_pos; lia).
  assert (m * L <= e - n * L < m * L + L) as Hm.
  { unfold m. rewrite Hdl. pose proof (Z.div_mod (e - n * L) L ltac:(lia)).
    pose proof (Z.mod_pos_bound (e - n * L) L HL). nia. }
  assert (zlen (acc ++ map (fun p => ((Some p, fid f, []), h')) (fulls L data)) = n + m) as Hn'.
  { rewrite zlen_app. unfold zlen at 2. rewrite map_length. fold (zlen (fulls L data)).
    rewrite (fulls_length L HL). reflexivity. }
  assert (total_size (done ++ [f]) = e) as Ht.
  { rewrite total_size_app. unfold total_size at 2. cbn [map sumZ]. unfold e, o. lia. }
  constructor; rewrite ?Hn', ?Ht; cbn [it_trailing it_skip it_mp].
  - rewrite i_split0, <- app_assoc. reflexivity.
  - nia.
  - nia.
  - rewrite (rem_eq L HL). fold m. unfold data. rewrite skipn_slice by nia. f_equal. lia.
  - apply bc_ok_none; [assumption|nia|]. eapply bc_ok_notin; eauto. lia.
  - apply skip_ok_good; [nia|assumption].
  - intros x Hx. apply i_seen0 in Hx. lia.
  - intros H. exfalso. nia.
  - intros a b Ha. rewrite spoiled_in_app, i_clean0 by nia. cbn [spoiled_in orb].
    rewrite Hgood. reflexivity.
  - rewrite !map_app, i_pieces0. rewrite (zrange_app 0 n (n + m)) by lia. rewrite map_app. f_equal.
    rewrite !map_map. cbn [fst piece_of].
    rewrite (fulls_as_map L data HL). fold m. rewrite map_map.
    replace (zrange n (n + m)) with (map (fun j => n + j) (zrange 0 m)).
    2:{ unfold zrange. rewrite map_map. replace (n + m - n) with (m - 0) by lia. apply map_ext. intros k. lia. }
    rewrite map_map. apply map_ext_in. intros j Hj. apply zrange_In in Hj.
    rewrite (expected_clean (n + j) (done ++ [f]) post).
    + f_equal. unfold data. rewrite slice_slice by nia. f_equal; lia.
    + rewrite i_split0, <- app_assoc. reflexivity.
    + lia.
    + rewrite spoiled_in_app, i_clean0 by nia. cbn [spoiled_in orb]. rewrite Hgood. reflexivity.
    + rewrite Ht. nia.
  - rewrite map_app, flat_map_app, real_items_no_reports, app_nil_r, i_reports0.
    rewrite covered_nil by (try assumption; nia). rewrite !app_nil_r.
    rewrite flat_map_app. cbn [flat_map]. rewrite (report_good d f Hgood). rewrite !app_nil_r. reflexivity.
Qed.

Lemma map_fst_pair {X Y} (h : Y) (l : list X) : map fst (map (fun it => (it, h)) l) = l.
Proof. rewrite map_map. cbn [fst]. apply map_id. Qed.

Lemma expected_spoiled p done f post :
  fs = done ++ f :: post -> goodb d f = false ->
  total_size done < (p + 1) * L -> p * L < total_size done + fsize f ->
  expected p = None.
Proof.
  intros Hs Hbad H1 H2. unfold expected.
  assert (allpos done /\ 0 < fsize f /\ allpos post) as (Hpd & Hf & Hpp).
  { rewrite Hs in Hpos. apply allpos_app in Hpos as [Ha Hb]. inversion Hb; subst. auto. }
  pose proof (total_size_nonneg post (allpos_nonneg _ Hpp)) as Htp.
  pose proof (total_ge done (f :: post) Hs) as Ht. rewrite total_size_cons in Ht.
  rewrite Hs at 1. rewrite spoiled_in_app. cbn [spoiled_in]. rewrite Hbad. cbn [negb andb].
  replace (overlaps (0 + total_size done) (fsize f) (p * L) (Z.min ((p + 1) * L) total - 1)) with true
    by (unfold overlaps; lia).
  rewrite orb_true_r. reflexivity.
Qed.

Lemma step_bad done f post st acc reason h' :
  inv done (f :: post) st acc -> zlen acc * L < total_size done + fsize f ->
  goodb d f = false -> report_of d f = [reason] ->
  exists items skip mp',
    file_mem f (mp_bycatch (it_mp st)) = false /\
    missing_pieces d fs L (it_mp st) f reason = Ok (items, skip, mp') /\
    inv (done ++ [f]) post
        {| it_trailing := []; it_skip := skip; it_mp := mp'; it_h := h'; it_lastfile := fid f |}
        (acc ++ map (fun it => (it, h')) items).
Proof.
  intros I Hnc Hbad Hrep. destruct I.
  set (n := zlen acc) in *. set (o := total_size done) in *. set (e := o + fsize f) in *.
  cbn [bc_ok] in i_bc0. destruct i_bc0 as [Hmem Hbc].
  cbn [skip_ok covered] in *. fold e in Hmem, i_skip0, i_reports0, Hbc.
  replace (e <=? n * L) with false in * by lia.
  assert (allpos done /\ 0 < fsize f /\ allpos post) as (Hpd & Hf & Hpp).
  { rewrite i_split0 in Hpos. apply allpos_app in Hpos as [H1 H2]. inversion H2; subst. auto. }
  pose proof (total_size_nonneg done (allpos_nonneg _ Hpd)) as Ho. fold o in Ho.
  pose proof (zlen_nonneg acc) as Hn0. fold n in Hn0.
  assert (NoDup (done ++ f :: post)) as Hnd' by (rewrite <- i_split0; exact Hnd).
  assert (allpos (done ++ f :: post)) as Hpos' by (rewrite <- i_split0; exact Hpos).
  destruct (missing_pieces_eval d L HL done f post (it_mp st) n reason Hnd' Hpos' Hn0
              ltac:(fold o; fold e; lia) ltac:(fold o; lia) ltac:(fold o; lia) i_seen0 i_has0) as (skip & Hmp & Hsk).
  rewrite <- i_split0 in Hmp. fold o in Hmp, Hsk. fold e in Hmp, Hsk.
  set (plast := (e - 1) / L) in *. set (B := (plast + 1) * L - 1) in *.
  set (E0 := spec_files_in_range done 0 (plast * L) B) in *.
  set (C := covered post e (B + 1)) in *.
  assert (n <= plast) as Hnp by (unfold plast; apply Z.div_le_lower_bound; lia).
  assert (plast * L <= e - 1 < (plast + 1) * L) as Hpl.
  { unfold plast. pose proof (Z.div_mod (e - 1) L ltac:(lia)). pose proof (Z.mod_pos_bound (e - 1) L HL). nia. }
  assert (flat_map (report_of d) E0 = []) as HE0.
  { unfold E0. apply spec_all_good. apply i_clean0. nia. }
  destruct (mp_items_facts (fid f) reason (flat_map (report_of d) (E0 ++ C)) (plast - n + 1) ltac:(lia))
    as (Hcount & Hnone & Hexcs).
  set (items := mp_items (fid f) reason (flat_map (report_of d) (E0 ++ C)) (plast - n + 1)) in *.
  exists items, skip, {| mp_seen := mp_seen (it_mp st) ++ zrange n (plast + 1);
                          mp_bycatch := mp_bycatch (it_mp st) ++ E0 ++ C |}.
  split; [exact Hmem|]. split; [exact Hmp|].
  assert (zlen (acc ++ map (fun it => (it, h')) items) = plast + 1) as Hn'.
  { rewrite zlen_app. unfold zlen at 2. rewrite map_length. fold (zlen items). rewrite Hcount. unfold n. lia. }
  assert (total_size (done ++ [f]) = e) as Ht.
  { rewrite total_size_app. unfold total_size at 2. cbn [map sumZ]. unfold e, o. lia. }
  replace ((plast + 1) * L) with (B + 1) in * by (unfold B; lia).
  constructor; rewrite ?Hn', ?Ht; cbn [it_trailing it_skip it_mp mp_seen mp_bycatch];
    replace ((plast + 1) * L) with (B + 1) by (unfold B; lia).
  - rewrite i_split0, <- app_assoc. reflexivity.
  - lia.
  - lia.
  - rewrite slice_empty by lia. reflexivity.
  - rewrite app_assoc. apply bc_ok_covered.
    + apply NoDup_remove_1 in Hnd'. apply NoDup_app_r in Hnd'. exact Hnd'.
    + exact Hpp.
    + intros g Hg. rewrite file_mem_app.
      rewrite (bc_ok_notin _ _ _ _ Hbc Hpp ltac:(lia) g Hg). cbn [orb].
      apply file_mem_false. intros Hin. unfold E0 in Hin. apply spec_files_in_range_In in Hin as (k & Hk & _).
      apply nth_error_In in Hk.
      assert (NoDup (done ++ post)) as Hnd2 by (apply NoDup_remove_1 in Hnd'; exact Hnd').
      clear - Hnd2 Hk Hg. induction done as [|x r IH]; [destruct Hk|].
      cbn [app] in Hnd2. inversion Hnd2 as [|? ? Hnin Hnd3]; subst. destruct Hk as [->|Hk].
      * apply Hnin. apply in_or_app. right. exact Hg.
      * apply IH; assumption.
  - exact Hsk.
  - intros x Hx. apply in_app_or in Hx as [Hx|Hx]; [apply i_seen0 in Hx; lia|apply zrange_In in Hx; lia].
  - intros _. apply in_or_app. right. apply zrange_In. lia.
  - intros a b Ha. rewrite spoiled_in_app, i_clean0 by lia. cbn [spoiled_in orb].
    fold o. assert (overlaps (0 + o) (fsize f) a b = false) as -> by (unfold overlaps; fold e; lia).
    rewrite andb_false_r. reflexivity.
  - rewrite !map_app, i_pieces0. rewrite (zrange_app 0 n (plast + 1)) by lia. rewrite map_app. f_equal.
    rewrite map_fst_pair.
    rewrite (map_const_repeat piece_of None items) by (intros x Hx; apply (proj1 (Forall_forall _ _) Hnone x Hx)).
    rewrite (map_const_repeat expected None (zrange n (plast + 1))).
    + f_equal. pose proof (zlen_zrange n (plast + 1) ltac:(lia)) as Hz. unfold zlen in Hz, Hcount. lia.
    + intros p Hp. apply zrange_In in Hp. apply (expected_spoiled p done f post i_split0 Hbad); fold o; fold e; nia.
  - rewrite map_app, flat_map_app, map_fst_pair, Hexcs, i_reports0.
    rewrite (flat_map_app _ E0 C), HE0. cbn [app]. rewrite !app_nil_r.
    rewrite !flat_map_app. cbn [flat_map]. rewrite Hrep, app_nil_r. rewrite <- app_assoc. reflexivity.
Qed.

Lemma iter_files_inv : forall todo done st acc,
  inv done todo st acc ->
  exists acc' st', iter_files d fs L todo st acc = Ok (acc', st') /\ inv (done ++ todo) [] st' acc'.
Proof.
  induction todo as [|f post IH]; intros done st acc I.
  - exists acc, st. rewrite app_nil_r. split; [reflexivity|exact I].
  - replace (done ++ f :: post) with ((done ++ [f]) ++ post) by (rewrite <- app_assoc; reflexivity).
    cbn [iter_files].
    destruct (Z_le_gt_dec (total_size done + fsize f) (zlen acc * L)) as [Hcov|Hnc].
    + destruct (step_covered done f post st acc I Hcov) as [Hmem I']. rewrite Hmem. apply IH. exact I'.
    + destruct (disk_get d (fid f)) as [c|] eqn:Hc.
      * destruct (zlen c =? fsize f) eqn:Ez.
        -- (* intact file *)
           destruct (get_open_file_present d (it_h st) (fid f) c Hc) as [h' Hopen].
           destruct (step_good done f post st acc c h' I ltac:(lia) Hc ltac:(lia)) as (Hmem & Hps & I').
           rewrite Hmem. cbn [negb]. rewrite Hopen, Hps.
           fold (fulls L (slice vs (zlen acc * L) (total_size done + fsize f))).
           fold (rem L (slice vs (zlen acc * L) (total_size done + fsize f))).
           apply IH. exact I'.
        -- (* wrong size *)
           assert (goodb d f = false) as Hbad by (unfold goodb; rewrite Hc; exact Ez).
           assert (report_of d f = [(XSize, fid f)]) as Hrep by (unfold report_of; rewrite Hc, Ez; reflexivity).
           destruct (step_bad done f post st acc (XSize, fid f) (it_h st) I ltac:(lia) Hbad Hrep)
             as (items & skip & mp' & Hmem & Hmp & I').
           rewrite Hmem. cbn [negb]. rewrite Hmp. cbn [bind]. apply IH. exact I'.
      * (* missing *)
        assert (goodb d f = false) as Hbad by (unfold goodb; rewrite Hc; reflexivity).
        assert (report_of d f = [(XMissing, fid f)]) as Hrep by (unfold report_of; rewrite Hc; reflexivity).
        destruct (get_open_file d (it_h st) (fid f)) as [r h'] eqn:Hopen.
        destruct (step_bad done f post st acc (XMissing, fid f) h' I ltac:(lia) Hbad Hrep)
          as (items & skip & mp' & Hmem & Hmp & I').
        rewrite Hmem. destruct r as [u|e0]; rewrite Hmp; cbn [bind]; apply IH; exact I'.
Qed.

Lemma inv_init h :
  inv [] fs {| it_trailing := []; it_skip := 0; it_mp := {| mp_seen := []; mp_bycatch := [] |};
               it_h := h; it_lastfile := 0 |} [].
Proof.
  constructor; cbn [it_trailing it_skip it_mp mp_seen mp_bycatch app];
    change (zlen (@nil (item * handles))) with 0; change (total_size []) with 0; rewrite ?Z.mul_0_l.
  - reflexivity.
  - lia.
  - lia.
  - rewrite slice_empty by lia. reflexivity.
  - apply bc_ok_none; [exact Hpos|lia|reflexivity].
  - apply skip_ok_good; [lia|exact Hpos].
  - intros x [].
  - lia.
  - reflexivity.
  - reflexivity.
  - rewrite covered_nil by (try exact Hpos; lia). reflexivity.
Qed.

Theorem iter_pieces_damage h :
  exists items,
    iter_pieces d h fs L = Ok items /\
    map piece_of items = map expected (zrange 0 (cdiv total L)) /\
    flat_map excs_of items = flat_map (report_of d) fs.
Proof.
  unfold iter_pieces, iter_pieces_snap. replace (L <=? 0) with false by lia.
  destruct (iter_files_inv fs [] _ [] (inv_init h)) as (acc & st & E & I).
  rewrite E. cbn [bind res_map app] in *. destruct I. cbn [app] in *. rewrite app_nil_r in *.
  set (n := zlen acc) in *. fold total in i_lo0, i_hi0, i_trail0, i_has0.
  pose proof (zlen_nonneg acc) as Hn0. fold n in Hn0.
  pose proof (total_size_nonneg fs (allpos_nonneg _ Hpos)) as Ht0. fold total in Ht0.
  destruct (Z_le_gt_dec total (n * L)) as [Hfull|Hpart].
  - (* the last piece was complete or faked *)
    rewrite slice_empty in i_trail0 by lia. rewrite i_trail0.
    exists (map fst acc). split; [reflexivity|]. split; [|exact i_reports0].
    rewrite i_pieces0. fold n. f_equal. f_equal. unfold cdiv.
    apply Z.div_unique with (r := total + L - 1 - n * L); lia.
  - (* a last, shorter piece is pending *)
    assert (zlen (slice vs (n * L) total) = total - n * L) as Hlen
      by (rewrite slice_len; rewrite ?zlen_vs; lia).
    destruct (it_trailing st) as [|b t] eqn:Et.
    { exfalso. rewrite <- i_trail0 in Hlen. unfold zlen in Hlen. cbn in Hlen. lia. }
    rewrite <- Et in i_trail0 |- *. clear Et.
    eexists. split; [reflexivity|]. rewrite !map_app, flat_map_app. cbn [map fst flat_map excs_of snd app].
    rewrite !app_nil_r. split; [|exact i_reports0].
    assert (cdiv total L = n + 1) as ->.
    { unfold cdiv. symmetry. apply Z.div_unique with (r := total + L - 1 - (n + 1) * L); lia. }
    rewrite (zrange_app 0 n (n + 1)) by lia. rewrite (map_app expected), i_pieces0. fold n. f_equal.
    assert (zrange n (n + 1) = [n]) as ->.
    { unfold zrange. replace (n + 1 - n) with 1 by lia. change (Z.to_nat 1) with 1%nat. cbn [seq map]. f_equal. lia. }
    cbn [map]. unfold piece_of at 1. cbn [fst]. f_equal. unfold expected.
    rewrite Z.min_r by lia. rewrite i_clean0 by lia.
    rewrite i_trail0. reflexivity.
Qed.

End Main.

(* the statement exported as C10_refines *)
Theorem iter_pieces_refines d L fs h :
  0 < L -> allpos fs -> NoDup fs ->
  exists items,
    iter_pieces d h fs L = Ok items /\
    map piece_of items = map (expected d L fs) (zrange 0 (cdiv (total_size fs) L)) /\
    zlen items = cdiv (total_size fs) L /\
    flat_map excs_of items = flat_map (report_of d) fs.
Proof.
  intros HL Hpos Hnd.
  destruct (iter_pieces_damage d L HL fs Hnd Hpos h) as (items & E & Hp & Hr).
  exists items. repeat split; try assumption.
  assert (0 <= cdiv (total_size fs) L) as Hc.
  { unfold cdiv. apply Z.div_pos; [|lia]. pose proof (total_size_nonneg fs (allpos_nonneg _ Hpos)). lia. }
  pose proof (zlen_zrange 0 (cdiv (total_size fs) L) Hc) as Hz. rewrite Z.sub_0_r in Hz. rewrite <- Hz.
  unfold zlen. rewrite <- (map_length piece_of items), Hp, map_length. reflexivity.
Qed.
