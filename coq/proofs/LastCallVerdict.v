(* LastCallVerdict.v -- C12, unbounded: a verification run with a progress callback that is not cancelled makes
   its last report with done = total -- whatever its verdict (True, or False because pieces were missing,
   missized or corrupt), the schedule, the number of hashers, the reporting interval and the clock. *)
From Coq Require Import Lia ZifyBool Permutation.
From Torf Require Import Base Pipeline PipelineProofs Tree OrderProofs FlowProofs ThreadProofs DeadlockProofs ConservationProofs ReaderDoneProofs
  DrainProofs LastCallProofs VerifyTrueProofs VerifyFalseProofs LastCallVerify CompleteProofs.
Open Scope Z_scope.

Theorem last_call_reports_total_unstopped_verify c s r :
  (1 <= cf_hashers c)%nat -> reach c s -> cf_verify c <> None -> has_user_cb c = true ->
  zlen (yielded (cf_items c)) = cf_total c -> 0 < cf_total c ->
  s_result s = Some r -> verdict r -> s_stop s = false ->
  exists pre idx e, s_calls s = pre ++ [(cf_total c, idx, e)].
Proof.
  intros Hn Hr Hv Hcb HY Hpos Hres Hvd Hs.
  pose proof (thread_invariant c s Hn Hr) as T.
  assert (Hmd : s_mpc s = MDone) by (apply (t_done c s T); apply (t_result c s T); rewrite Hres; discriminate).
  destruct (verdict_invariant_rexc c s Hn Hr) as [_ X2]. pose proof (X2 Hmd r Hres Hvd) as He.
  pose proof (uncancelled_run_collects_everything c s r Hn Hr Hres Hvd Hs He) as Hp.
  apply Permutation_length in Hp. rewrite map_length, seq_length in Hp.
  assert (Hlen : zlen (s_seen s) = cf_total c) by (unfold nitems, zlen in *; lia).
  pose proof (last_invariant_verify c s Hcb Hv Hr) as Hl. unfold LInv in Hl. rewrite Hmd in Hl.
  assert (Hne : s_seen s <> []) by (intros E; rewrite E in Hlen; unfold zlen in Hlen; cbn in Hlen; lia).
  destruct (Hl ltac:(lia) Hne) as (pre & idx & e & Ec). exists pre, idx, e. rewrite Ec, Hlen. reflexivity.
Qed.

(* ---- a passive callback never stops a verification run ---- *)
Definition QS (s : state) : Prop := s_stop s = false /\ (forall a, s_mpc s <> MStopRead a) /\ (forall a, s_mpc s <> MStopWrite a).

Lemma collect_item_quiet c s idx h exc : cf_plan c = CbQuiet -> cf_verify c <> None -> s_mpc (collect_item c s idx h exc) = MGet.
Proof.
  intros Hp Hv. unfold collect_item, has_user_cb, user_cb. rewrite Hp. destruct (_ || _); [|reflexivity].
  destruct (cf_verify c); [|contradiction]. destruct exc; try destruct (mismatch c idx h); reflexivity.
Qed.

Lemma QS_keep s s' : s_stop s' = s_stop s -> s_mpc s' = s_mpc s -> QS s -> QS s'.
Proof. unfold QS. intros -> ->. auto. Qed.

Lemma QS_to s pc : (forall a, pc <> MStopRead a) -> (forall a, pc <> MStopWrite a) -> QS s -> QS (set_mpc s pc).
Proof. intros A B [C _]. split; [exact C|split; cbn [set_mpc s_mpc]; assumption]. Qed.

Lemma reader_next_stop s todo idx : s_stop (reader_next s todo idx) = s_stop s.
Proof. unfold reader_next. destruct todo as [|[h|es| | |e] rest]; reflexivity. Qed.

Lemma step_reader_rd' s : s_stop (step_reader s) = s_stop s.
Proof.
  unfold step_reader. destruct (s_rpc s).
  - destruct (s_stop s) eqn:E; [cbn; exact E|]. destruct (s_rtodo s) as [|[h|es| | |e] rest]; cbn; exact E.
  - rewrite reader_next_stop. reflexivity.
  - destruct (_ >=? _); [destruct (negb _); [rewrite reader_next_stop|]; reflexivity|rewrite reader_next_stop; reflexivity].
  - reflexivity.
  - reflexivity.
Qed.

Theorem quiet_never_stops c s : cf_plan c = CbQuiet -> cf_verify c <> None -> reach c s -> QS s.
Proof.
  intros Hp Hv. induction 1 as [|s t a inc Hr IH Hen Hinc]; [split; [reflexivity|split; intros a; discriminate]|].
  unfold step. destruct (t =? 0).
  - pose proof IH as (Hs & H1 & H2). unfold step_main. destruct (s_mpc s) eqn:Empc;
      try (apply QS_to; [intros a0; discriminate|intros a0; discriminate|exact IH]);
      try (exfalso; exact (H1 _ eq_refl)); try (exfalso; exact (H2 _ eq_refl)).
    + destruct (refused c t0).
      * destruct ((t0 =? 1) || (t0 =? 2) || (t0 =? 3)); [split; [exact Hs|split; intros a0; discriminate]|].
        destruct (next_to_start c t0); apply QS_to; try (intros a0; discriminate); exact IH.
      * assert (Hst : QS (start_thread s t0)).
        { destruct (start_thread_keep s t0) as (_ & _ & _ & Em & _Er). split; [|rewrite Em, Empc; split; intros a0; discriminate].
          rewrite <- Hs. unfold start_thread, reader_next, upd_hasher. break_match; reflexivity. }
        destruct (next_to_start c t0); apply QS_to; try (intros a0; discriminate); exact Hst.
    + destruct (s_hq s) as [|[|idx h exc] r] eqn:Ehq; [exact IH|apply QS_to; try (intros a0; discriminate); exact IH|].
      pose proof (no_piece_twice c s idx h exc r Hr Ehq) as Hns. cbn [set_hq s_seen].
      destruct (existsb (Z.eqb idx) (s_seen s)) eqn:Eex.
      { exfalso. apply existsb_exists in Eex as (x & Hx & Ex). apply Hns. replace idx with x by lia. exact Hx. }
      split; [exact Hs|split; intros a0; discriminate].
    + pose proof (collect_item_quiet c (set_now s (s_now s + inc)) idx h exc Hp Hv) as Em.
      split; [rewrite collect_item_stop; exact Hs|rewrite Em; split; intros a0; discriminate].
    + destruct (is_alive s 1); apply QS_to; try (intros a0; discriminate); try exact IH; intros a0; unfold next_hasher; destruct (nth_error _ _); discriminate.
    + apply QS_to; try exact IH; intros a0; unfold next_hasher; destruct (nth_error _ _); discriminate.
    + destruct (is_alive s t0); apply QS_to; try (intros a0; discriminate); try exact IH; intros a0; unfold next_hasher; destruct (nth_error _ _); discriminate.
    + apply QS_to; try exact IH; intros a0; unfold next_hasher; destruct (nth_error _ _); discriminate.
    + destruct (is_alive s 2); [apply QS_to; try (intros a0; discriminate); exact IH|].
      unfold finish. destruct o; (split; [exact Hs|split; intros a0; discriminate]).
    + unfold finish. destruct o; (split; [exact Hs|split; intros a0; discriminate]).
    + exact IH.
  - destruct (t =? 1).
    + assert (Hg : forall s0, s_stop s0 = s_stop s -> s_mpc s0 = s_mpc s -> QS (step_reader s0)).
      { intros s0 E1 E2. destruct (step_reader_keep s0) as (_ & _ & _ & _ & _ & Em & _). pose proof (step_reader_rd' s0) as Es.
        apply (QS_keep s); [rewrite Es; exact E1|rewrite Em; exact E2|exact IH]. }
      destruct (s_rpc s); apply Hg; reflexivity.
    + destruct (t =? 2).
      * destruct (step_janitor_rd s a) as (_ & _ & _ & _ & A5). destruct (step_janitor_keep s a) as (_ & _ & _ & _ & E5 & _). apply (QS_keep s); assumption.
      * destruct (step_hasher_rd s (hasher_index t) a) as (_ & _ & _ & _ & A5). destruct (step_hasher_keep s (hasher_index t) a) as (_ & _ & _ & E4 & _). apply (QS_keep s); assumption.
Qed.

(* C12: with a passive callback every verification run that returns a verdict made its last report with done = total *)
Theorem last_call_reports_total_quiet_verify c s r :
  (1 <= cf_hashers c)%nat -> reach c s -> cf_verify c <> None -> cf_plan c = CbQuiet ->
  zlen (yielded (cf_items c)) = cf_total c -> 0 < cf_total c ->
  s_result s = Some r -> verdict r ->
  exists pre idx e, s_calls s = pre ++ [(cf_total c, idx, e)].
Proof.
  intros Hn Hr Hv Hp HY Hpos Hres Hvd. destruct (quiet_never_stops c s Hp Hv Hr) as [Hs _].
  apply (last_call_reports_total_unstopped_verify c s r Hn Hr Hv); try assumption. unfold has_user_cb. rewrite Hp. reflexivity.
Qed.

(* C12 for hashing runs: a run with a progress callback that returns a verdict without having been told to stop made
   its last report with done = total *)
Theorem last_call_reports_total_unstopped_generate c s r hs :
  (1 <= cf_hashers c)%nat -> reach c s -> cf_verify c = None -> has_user_cb c = true ->
  yielded (cf_items c) = map RPiece hs -> cf_total c = zlen hs -> 0 < cf_total c ->
  s_result s = Some r -> verdict r -> s_stop s = false ->
  exists pre idx e, s_calls s = pre ++ [(cf_total c, idx, e)].
Proof.
  intros Hn Hr Hgen Hcb HY Htot Hpos Hres Hv Hs.
  pose proof (generate_unstopped_returns_true c s r hs Hn Hr Hgen HY Htot Hres Hv Hs) as ->.
  exact (last_call_reports_total c s hs Hr Hgen Hcb HY Htot Hpos Hres).
Qed.
