(* VerifyFalseProofs.v -- C02, unbounded, the other direction: a run that ends with a verdict (True or
   False, no exception) carries exactly the verdict of the comparison of the collected hashes; so
   False means the collected hashes differ from the recorded ones, and on intact content False can
   only mean that not every piece reached the collector (cancelled run). *)
From Coq Require Import Lia ZifyBool Permutation.
From Torf Require Import Base Pipeline PipelineProofs Tree OrderProofs FlowProofs VerifyTrueProofs.
Open Scope Z_scope.

Definition decided (r : result) : Prop := r = ResTrue \/ r = ResFalse.

Definition RInv (c : config) (s : state) : Prop :=
  (s_result s <> None -> s_mpc s = MDone) /\
  (forall r, s_result s = Some r -> decided r -> r = conclude c s).

Lemma conclude_hashes c s s' : s_hashes s' = s_hashes s -> conclude c s' = conclude c s.
Proof. intros E. unfold conclude. rewrite E. reflexivity. Qed.

Lemma RInv_of_rview c s s' : rview s' = rview s -> RInv c s -> RInv c s'.
Proof.
  unfold rview, RInv. intros E H. injection E as E1 E2 E3. rewrite E1, E3, (conclude_hashes c s s' E2). exact H.
Qed.

Lemma step_main_RInv c s inc : RInv c s -> RInv c (step_main c s inc).
Proof.
  intros Hinv0. pose proof Hinv0 as [H1 H2].
  assert (Hnone : s_mpc s <> MDone -> s_result s = None).
  { intros Hm. destruct (s_result s) eqn:E; [|reflexivity]. exfalso. apply Hm. apply H1. discriminate. }
  assert (Hkeep : forall s' , s_result s' = s_result s -> s_mpc s' <> MDone -> s_mpc s <> MDone -> RInv c s').
  { intros s' Er Hm Hm0. split; rewrite Er, (Hnone Hm0); [intros C; exfalso; apply C; reflexivity|discriminate]. }
  assert (Hfin : forall r, (decided r -> r = conclude c s) -> RInv c (finish_main s r)).
  { intros r Hr. split; cbn [finish_main s_result s_mpc s_hashes]; [reflexivity|]. intros r' E Hd. injection E as <-.
    rewrite (conclude_hashes c s (finish_main s r) eq_refl). apply Hr. exact Hd. }
  assert (Hund : forall r, r <> ResTrue -> r <> ResFalse -> RInv c (finish_main s r)).
  { intros r Ha Hb. apply Hfin. intros [E|E]; [exfalso; apply Ha; exact E|exfalso; apply Hb; exact E]. }
  assert (Hfinish : forall o, RInv c (finish c s o)).
  { intros o. unfold finish. destruct o; [apply Hfin; intros _; reflexivity|apply Hund; discriminate]. }
  unfold step_main. destruct (s_mpc s) eqn:Empc; try (apply Hkeep; [reflexivity|cbn; discriminate|discriminate]).
  - destruct (refused c t).
    + destruct ((t =? 1) || (t =? 2) || (t =? 3)); [apply Hund; discriminate|].
      destruct (next_to_start c t); apply Hkeep; try reflexivity; cbn; try discriminate; discriminate.
    + pose proof (start_thread_rview s t) as Ev. unfold rview in Ev. injection Ev as E1 E2 E3.
      destruct (next_to_start c t); apply Hkeep; cbn [set_mpc s_result s_mpc]; try exact E1; try discriminate; discriminate.
  - destruct (s_hq s) as [|[|idx h exc] r]; [exact Hinv0| |].
    + apply Hkeep; [reflexivity|cbn; discriminate|discriminate].
    + destruct (existsb _ _); apply Hkeep; try reflexivity; cbn; try discriminate; discriminate.
  - destruct (collect_item_result c (set_now s (s_now s + inc)) idx h exc) as (E1 & E2 & E3).
    apply Hkeep; [exact E1|exact E3|discriminate].
  - destruct (s_stop s); [destruct a|]; apply Hkeep; try reflexivity; cbn; try discriminate; discriminate.
  - destruct a; apply Hkeep; try reflexivity; cbn; try discriminate; discriminate.
  - destruct (is_alive s 1); apply Hkeep; try reflexivity; try (discriminate); cbn; try discriminate.
    unfold next_hasher. destruct (nth_error _ _); discriminate.
  - apply Hkeep; try reflexivity; try (discriminate). cbn. unfold next_hasher. destruct (nth_error _ _); discriminate.
  - destruct (is_alive s t); apply Hkeep; try reflexivity; try (discriminate); cbn; try discriminate.
    unfold next_hasher. destruct (nth_error _ _); discriminate.
  - apply Hkeep; try reflexivity; try (discriminate). cbn. unfold next_hasher. destruct (nth_error _ _); discriminate.
  - destruct (is_alive s 2); [apply Hkeep; [reflexivity|cbn; discriminate|discriminate]|apply Hfinish].
  - apply Hfinish.
  - exact Hinv0.
Qed.

Theorem verdict_invariant c s : reach c s -> RInv c s.
Proof.
  induction 1 as [|s t a inc Hr IH Hen Hinc]; [split; cbn; [intros C; exfalso; apply C; reflexivity|discriminate]|].
  unfold step. destruct (t =? 0); [apply step_main_RInv; exact IH|].
  destruct (t =? 1).
  - destruct (s_rpc s); try (apply (RInv_of_rview c s); [apply step_reader_rview|exact IH]).
    apply (RInv_of_rview c s); [rewrite step_reader_rview; reflexivity|exact IH].
  - destruct (t =? 2); apply (RInv_of_rview c s); try exact IH; [apply step_janitor_rview|apply step_hasher_rview].
Qed.

Lemma list_eqb_refl : forall a : list Z,
  (fix eqb (a b : list Z) : bool :=
     match a, b with
     | [], [] => true
     | x :: a', y :: b' => (x =? y) && eqb a' b'
     | _, _ => false end) a a = true.
Proof. induction a as [|x a IH]; [reflexivity|]. rewrite Z.eqb_refl. exact IH. Qed.

(* the verdict is the verdict of the comparison: True iff the collected hashes, in piece order, are the recorded ones *)
Theorem verify_verdict_is_comparison c s expd r :
  reach c s -> cf_verify c = Some expd -> s_result s = Some r -> decided r ->
  (r = ResTrue <-> sorted_hashes (s_hashes s) = expd).
Proof.
  intros Hr Hv Hres Hd. destruct (verdict_invariant c s Hr) as [_ H]. specialize (H r Hres Hd).
  unfold conclude in H. rewrite Hv in H.
  match type of H with _ = (if ?b then _ else _) => destruct b eqn:Eb end.
  - split; [intros _; apply list_eqb_eq; exact Eb|intros _; exact H].
  - split; [intros E; rewrite E in H; discriminate H|intros E; rewrite E, list_eqb_refl in Eb; discriminate Eb].
Qed.

Theorem verify_false_means_difference c s expd :
  reach c s -> cf_verify c = Some expd -> s_result s = Some ResFalse -> sorted_hashes (s_hashes s) <> expd.
Proof.
  intros Hr Hv Hres E. apply (verify_verdict_is_comparison c s expd ResFalse Hr Hv Hres (or_intror eq_refl)) in E. discriminate E.
Qed.

(* On intact, fully readable content (the reader yields every piece and each hashes to the recorded value),
   a run that returns False has not collected every piece: fewer hashes than pieces reached the collector.
   (False for intact content needs a run that was cut short.) *)
Theorem verify_false_on_intact_is_incomplete c s expd :
  reach c s -> cf_verify c = Some expd -> yielded (cf_items c) = map RPiece expd ->
  s_result s = Some ResFalse -> (length (s_hashes s) < length expd)%nat.
Proof.
  intros Hr Hv HY Hres. pose proof (flow_invariant c s Hr) as Hf.
  assert (Hin : forall i h, In (i, h) (s_hashes s) -> 0 <= i /\ nth_error expd (Z.to_nat i) = Some h).
  { intros i h Hin. pose proof (fi_hashes c s Hf) as Hh. rewrite Forall_forall in Hh. destruct (Hh (i, h) Hin) as [Hseen Hn]. cbn [fst snd] in *.
    assert (Hi : 0 <= i).
    { pose proof (fi_bound c s Hf) as Hb. rewrite Forall_forall in Hb. apply (Hb i). unfold indices. apply in_or_app. right. exact Hseen. }
    split; [exact Hi|]. rewrite HY in Hn. rewrite nth_error_map in Hn. destruct (nth_error expd (Z.to_nat i)); [injection Hn as ->; reflexivity|discriminate]. }
  assert (Hle : (length (s_hashes s) <= length expd)%nat).
  { rewrite <- (map_length fst (s_hashes s)), <- (seq_length (length expd) 0), <- (map_length Z.of_nat (seq 0 (length expd))).
    apply NoDup_incl_length; [exact (fi_hnodup c s Hf)|].
    intros i Hi. apply in_map_iff in Hi as ([i' h] & <- & Hi). cbn [fst]. destruct (Hin i' h Hi) as [H0 Hn].
    apply in_map_iff. exists (Z.to_nat i'). split; [lia|]. apply in_seq. split; [lia|]. cbn. apply nth_error_Some. rewrite Hn. discriminate. }
  destruct (Nat.eq_dec (length (s_hashes s)) (length expd)) as [E|E]; [|lia].
  exfalso. apply (verify_false_means_difference c s expd Hr Hv Hres).
  apply hashes_are_reference; [exact (fi_hnodup c s Hf)|exact E|exact Hin].
Qed.
