(* ReuseProofs.v -- C18: the search accepts a candidate only if names, file sets
   and piece-length bounds match and the first, middle and last piece of every
   file verify against the local content; on acceptance exactly the candidate's
   piece length, hashes and file order are copied; otherwise nothing changes;
   a passing candidate is found unless an earlier error is raised (no callback)
   or the callback cancels. *)
From Coq Require Import Lia ZifyBool.
From Torf Require Import Base Extracted Geometry Stream GeometryProofs HistoryProofs Reuse.
Open Scope Z_scope.

(* ---- which pieces are sampled ---- *)
Lemma skipn_seq k : forall s n, skipn k (seq s n) = seq (s + k) (n - k).
Proof.
  induction k as [|k IH]; intros s n; [rewrite Nat.add_0_r, Nat.sub_0_r; reflexivity|].
  destruct n as [|n]; [reflexivity|]. cbn [seq skipn]. rewrite IH. f_equal; lia.
Qed.

Lemma firstn1_seq s n : (0 < n)%nat -> firstn 1 (seq s n) = [s].
Proof. destruct n; [lia|]. reflexivity. Qed.

Lemma some_indexes_zrange a b :
  a < b -> some_indexes (zrange a b) = [a; a + (b - a) / 2; b - 1].
Proof.
  intros Hab. unfold some_indexes, zrange.
  set (n := Z.to_nat (b - a)).
  assert (Hn : (0 < n)%nat) by lia.
  assert (Hlen : length (map (fun k : nat => a + Z.of_nat k) (seq 0 n)) = n) by (rewrite map_length, seq_length; reflexivity).
  unfold zlen. rewrite Hlen.
  rewrite !skipn_map, !firstn_map, !skipn_seq, firstn1_seq by exact Hn.
  assert (Hm : (Z.to_nat (Z.of_nat n / 2) < n)%nat).
  { apply Nat2Z.inj_lt. rewrite Z2Nat.id by (apply Z.div_pos; lia). apply Z.div_lt; lia. }
  rewrite firstn1_seq by lia.
  replace (n - (n - 1))%nat with 1%nat by lia. cbn [map seq app].
  f_equal; [lia|]. f_equal.
  - rewrite Nat.add_0_l, Z2Nat.id by (apply Z.div_pos; lia). f_equal. f_equal. lia.
  - f_equal. lia.
Qed.

(* the three sampled pieces of the k-th file of a stream: the piece holding its first byte,
   the piece in the middle of its piece range, the piece holding its last byte *)
Definition first_piece (fs : list file) (L : Z) (k : nat) : Z := offset_of fs k / L.
Definition last_piece (fs : list file) (L : Z) (k : nat) (f : file) : Z := (offset_of fs k + fsize f - 1) / L.
Definition middle_piece (fs : list file) (L : Z) (k : nat) (f : file) : Z :=
  first_piece fs L k + (last_piece fs L k f - first_piece fs L k + 1) / 2.

Lemma sampled_of_file fs L k f :
  NoDup fs -> nth_error fs k = Some f -> 0 < L -> 0 < fsize f -> 0 <= offset_of fs k ->
  exists all, piece_indexes_of_file fs L f false = Ok all /\
              some_indexes all = [first_piece fs L k; middle_piece fs L k f; last_piece fs L k f].
Proof.
  intros Hnd Hk HL Hsz Hoff. eexists. split; [apply (piece_indexes_inclusive_spec fs L k f Hnd Hk HL)|].
  assert (Hlt : offset_of fs k / L < (offset_of fs k + fsize f - 1) / L + 1).
  { assert (offset_of fs k / L <= (offset_of fs k + fsize f - 1) / L) by (apply Z.div_le_mono; lia). lia. }
  rewrite (some_indexes_zrange _ _ Hlt). unfold middle_piece, first_piece, last_piece.
  f_equal. f_equal; [f_equal; f_equal; lia|]. f_equal. lia.
Qed.

Lemma collect_indexes_In cfs L : forall tfs idxs f all,
  collect_indexes cfs L tfs = Ok idxs -> In f tfs -> piece_indexes_of_file cfs L f false = Ok all ->
  forall i, In i (some_indexes all) -> In i idxs.
Proof.
  induction tfs as [|g r IH]; intros idxs f all Hc Hin Hall i Hi; [destruct Hin|].
  cbn [collect_indexes] in Hc.
  destruct (piece_indexes_of_file cfs L g false) as [allg|e] eqn:Eg; [|discriminate Hc]. cbn [bind] in Hc.
  destruct (collect_indexes cfs L r) as [rest|e] eqn:Er; [|discriminate Hc]. cbn [bind] in Hc. injection Hc as <-.
  apply in_or_app. destruct Hin as [->|Hin].
  - left. rewrite Hall in Eg. injection Eg as <-. exact Hi.
  - right. exact (IH rest f all eq_refl Hin Hall i Hi).
Qed.

Section WithHash.
Variable H : bytes -> bytes.

(* piece i of the candidate's stream, read from the local content, has the candidate's hash *)
Definition piece_ok (d : disk) (c : candidate) (i : Z) : Prop :=
  fst (verify_piece H d [] (c_files c) (c_plen c) (c_hashes c) i) = Ok (Some true).

Lemma verify_all_true d c : forall idxs h,
  h_ok d h -> verify_all H d h c idxs = Ok true -> forall i, In i idxs -> piece_ok d c i.
Proof.
  induction idxs as [|a r IH]; intros h Hh Hv i Hin; [destruct Hin|].
  cbn [verify_all] in Hv.
  pose proof (verify_piece_indep H d (c_files c) (c_plen c) (c_hashes c) a [] h (h_ok_nil d) Hh) as Hind.
  pose proof (verify_piece_inv H d (c_files c) (c_plen c) (c_hashes c) a h Hh) as [Hinv _].
  destruct (verify_piece H d h (c_files c) (c_plen c) (c_hashes c) a) as [ra h'] eqn:E. cbn [fst snd] in *.
  destruct ra as [[[|]|]|e]; try discriminate Hv.
  destruct Hin as [<-|Hin]; [exact Hind|]. exact (IH h' Hinv Hv i Hin).
Qed.

Lemma verify_all_complete d c : forall idxs h,
  h_ok d h -> (forall i, In i idxs -> piece_ok d c i) -> verify_all H d h c idxs = Ok true.
Proof.
  induction idxs as [|a r IH]; intros h Hh Hall; [reflexivity|].
  cbn [verify_all].
  pose proof (verify_piece_indep H d (c_files c) (c_plen c) (c_hashes c) a [] h (h_ok_nil d) Hh) as Hind.
  pose proof (verify_piece_inv H d (c_files c) (c_plen c) (c_hashes c) a h Hh) as [Hinv _].
  destruct (verify_piece H d h (c_files c) (c_plen c) (c_hashes c) a) as [ra h'] eqn:E. cbn [fst snd] in *.
  rewrite <- Hind, (Hall a (or_introl eq_refl)). apply IH; [exact Hinv|]. intros i Hi. apply Hall. right. exact Hi.
Qed.

Theorem content_match_iff d t c :
  is_content_match H d t c = Ok true <->
  exists idxs, collect_indexes (c_files c) (c_plen c) (t_files t) = Ok idxs /\ forall i, In i idxs -> piece_ok d c i.
Proof.
  unfold is_content_match. split.
  - destruct (collect_indexes (c_files c) (c_plen c) (t_files t)) as [idxs|e]; [|discriminate]. cbn [bind].
    intros Hv. exists idxs. split; [reflexivity|]. intros i Hi.
    apply (verify_all_true d c _ [] (h_ok_nil d) Hv). apply sorted_set_In. exact Hi.
  - intros (idxs & -> & Hall). cbn [bind]. apply verify_all_complete; [apply h_ok_nil|].
    intros i Hi. apply Hall. apply sorted_set_In. exact Hi.
Qed.

(* an accepted candidate verified in the first, middle and last piece of every file *)
Theorem content_match_samples d t c f k :
  is_content_match H d t c = Ok true ->
  In f (t_files t) -> NoDup (c_files c) -> nth_error (c_files c) k = Some f ->
  0 < c_plen c -> 0 < fsize f -> 0 <= offset_of (c_files c) k ->
  piece_ok d c (first_piece (c_files c) (c_plen c) k) /\
  piece_ok d c (middle_piece (c_files c) (c_plen c) k f) /\
  piece_ok d c (last_piece (c_files c) (c_plen c) k f).
Proof.
  intros Hm Hin Hnd Hk HL Hsz Hoff. apply content_match_iff in Hm as (idxs & Hc & Hall).
  destruct (sampled_of_file (c_files c) (c_plen c) k f Hnd Hk HL Hsz Hoff) as (all & Hall' & Hs).
  pose proof (collect_indexes_In _ _ _ _ _ _ Hc Hin Hall') as Hsub. rewrite Hs in Hsub.
  repeat split; apply Hall, Hsub; cbn; auto.
Qed.

(* ---- the search loop ---- *)
Definition passes (d : disk) (t : rtorrent) (c : candidate) : Prop :=
  is_file_match t c = true /\ is_content_match H d t c = Ok true.

Lemma search_sound d cb t : forall items idx log r t' log',
  search H d cb t idx items log = (r, t', log') ->
  (r = Ok true -> exists c, In (ICand c) items /\ passes d t c /\ t' = copy c t) /\
  (r <> Ok true -> t' = t).
Proof.
  induction items as [|it items IH]; intros idx log r t' log' Hs; cbn [search] in Hs.
  - injection Hs as <- <- <-. split; [discriminate|reflexivity].
  - destruct it as [e|c].
    + destruct (notify cb (length log) (Some e)) as [[|]|x].
      * injection Hs as <- <- <-. split; [discriminate|reflexivity].
      * destruct (IH _ _ _ _ _ Hs) as [A B]. split; [|exact B].
        intros Hr. destruct (A Hr) as (c & Hin & Hp). exists c. split; [right; exact Hin|exact Hp].
      * injection Hs as <- <- <-. split; [discriminate|reflexivity].
    + destruct (is_file_match t c) eqn:Efm.
      * destruct (notify cb (length log) None) as [[|]|x].
        -- injection Hs as <- <- <-. split; [discriminate|reflexivity].
        -- destruct (is_content_match H d t c) as [[|]|x] eqn:Ecm.
           ++ injection Hs as <- <- <-. split; [|intros C; exfalso; apply C; reflexivity].
              intros _. exists c. split; [left; reflexivity|]. split; [split; assumption|reflexivity].
           ++ destruct (notify cb _ None) as [[|]|x].
              ** injection Hs as <- <- <-. split; [discriminate|reflexivity].
              ** destruct (IH _ _ _ _ _ Hs) as [A B]. split; [|exact B].
                 intros Hr. destruct (A Hr) as (c' & Hin & Hp). exists c'. split; [right; exact Hin|exact Hp].
              ** injection Hs as <- <- <-. split; [discriminate|reflexivity].
           ++ injection Hs as <- <- <-. split; [discriminate|reflexivity].
        -- injection Hs as <- <- <-. split; [discriminate|reflexivity].
      * destruct (notify cb (length log) None) as [[|]|x].
        -- injection Hs as <- <- <-. split; [discriminate|reflexivity].
        -- destruct (IH _ _ _ _ _ Hs) as [A B]. split; [|exact B].
           intros Hr. destruct (A Hr) as (c' & Hin & Hp). exists c'. split; [right; exact Hin|exact Hp].
        -- injection Hs as <- <- <-. split; [discriminate|reflexivity].
Qed.

(* the callback never cancels and, without a callback, no entry is an error; content
   checks of matching candidates do not raise *)
Definition quiet (cb : cbmode) (items : list ritem) : Prop :=
  match cb with
  | CbPassive => True
  | CbNone => forall e, ~ In (IErr e) items
  | CbCancelAt _ => False
  end.

Lemma notify_quiet_none cb n items : quiet cb items -> notify cb n None = Ok false.
Proof. destruct cb; cbn; [reflexivity|reflexivity|tauto]. Qed.

Lemma search_complete d cb t : forall items idx log,
  quiet cb items ->
  (forall c, In (ICand c) items -> is_file_match t c = true -> exists b, is_content_match H d t c = Ok b) ->
  (exists c, In (ICand c) items /\ passes d t c) ->
  fst (fst (search H d cb t idx items log)) = Ok true.
Proof.
  induction items as [|it items IH]; intros idx log Hq Hnr (c0 & Hin & Hp); [destruct Hin|].
  cbn [search]. destruct it as [e|c].
  - destruct Hin as [Hin|Hin]; [discriminate Hin|].
    assert (Hn : notify cb (length log) (Some e) = Ok false).
    { destruct cb; cbn in *; [exfalso; apply (Hq e); left; reflexivity|reflexivity|tauto]. }
    rewrite Hn. apply IH.
    + destruct cb; cbn in *; [intros e' He'; apply (Hq e'); right; exact He'|exact I|tauto].
    + intros c Hc. apply Hnr. right. exact Hc.
    + exists c0. split; assumption.
  - assert (Hq' : quiet cb items).
    { destruct cb; cbn in *; [intros e' He'; apply (Hq e'); right; exact He'|exact I|tauto]. }
    assert (Hrest : In (ICand c0) items -> fst (fst (search H d cb t (S idx) items
                       (if has_cb cb then log ++ [(idx, SFalse, false)] else log))) = Ok true).
    { intros Hin'. apply IH; [exact Hq'| |exists c0; split; assumption]. intros c' Hc'. apply Hnr. right. exact Hc'. }
    destruct (is_file_match t c) eqn:Efm.
    + rewrite (notify_quiet_none cb _ _ Hq).
      destruct (Hnr c (or_introl eq_refl) Efm) as [b Hb]. rewrite Hb. destruct b; [reflexivity|].
      rewrite (notify_quiet_none cb _ _ Hq).
      destruct Hin as [Hin|Hin].
      * injection Hin as <-. destruct Hp as [_ Hp]. rewrite Hp in Hb. discriminate Hb.
      * apply IH; [exact Hq'| |exists c0; split; assumption]. intros c' Hc'. apply Hnr. right. exact Hc'.
    + rewrite (notify_quiet_none cb _ _ Hq).
      destruct Hin as [Hin|Hin].
      * injection Hin as <-. destruct Hp as [Hp _]. rewrite Hp in Efm. discriminate Efm.
      * exact (Hrest Hin).
Qed.

(* what a file match means *)
Lemma is_file_match_true t c :
  is_file_match t c = true ->
  t_name t = c_name c /\ files_eqb (fsort (t_files t)) (fsort (c_files c)) = true /\ t_pmin t <= c_plen c <= t_pmax t.
Proof.
  unfold is_file_match. destruct (t_name t =? c_name c) eqn:En; cbn [negb]; [|discriminate].
  destruct (files_eqb (fsort (t_files t)) (fsort (c_files c))); [|discriminate]. lia.
Qed.
End WithHash.

(* ---- file sets ---- *)
From Coq Require Import Permutation.
From Torf Require Import Tree OrderProofs.

Lemma finsert_perm x l : Permutation (finsert x l) (x :: l).
Proof.
  induction l as [|y r IH]; cbn [finsert]; [reflexivity|]. destruct (file_ltb y x); [|reflexivity].
  rewrite IH. apply perm_swap.
Qed.

Lemma fsort_perm l : Permutation (fsort l) l.
Proof. induction l as [|x r IH]; cbn [fsort fold_right]; [reflexivity|]. fold (fsort r). rewrite finsert_perm. constructor. exact IH. Qed.

Lemma files_eqb_eq a b : files_eqb a b = true -> a = b.
Proof.
  revert b. induction a as [|x a IH]; intros [|y b]; cbn [files_eqb]; try discriminate; [reflexivity|].
  unfold file_eqb. intros E. apply andb_true_iff in E as [E1 E2]. apply andb_true_iff in E1 as [Ea Eb].
  destruct x, y. cbn [fst snd] in *. f_equal; [f_equal; lia|apply IH; exact E2].
Qed.

(* equal sorted lists: the same relative paths with the same sizes *)
Theorem file_sets_equal a b : files_eqb (fsort a) (fsort b) = true -> Permutation a b.
Proof.
  intros E. apply files_eqb_eq in E. rewrite <- (fsort_perm a), <- (fsort_perm b), E. reflexivity.
Qed.
