(* IterBounded.v -- C10 on an explicitly enumerated finite domain, decided inside
   Coq by vm_compute and lifted with forallb_forall.  The bound is part of the
   statement; this is NOT the unbounded claim (see Props/C10.v). *)
From Coq Require Import Lia.
From Torf Require Import Base Extracted Geometry Stream IterSpec.
Open Scope Z_scope.

Lemma lists_of_In {X} (vals : list X) : forall n l,
  In l (lists_of vals n) <-> length l = n /\ Forall (fun x => In x vals) l.
Proof.
  induction n as [|n IH]; intros l; cbn [lists_of].
  - split.
    + intros [E|[]]. subst l. split; [reflexivity|constructor].
    + intros [Hl _]. destruct l; [left; reflexivity|discriminate].
  - rewrite in_flat_map. split.
    + intros (v & Hv & Hl). apply in_map_iff in Hl as (t & <- & Ht).
      apply IH in Ht as [Hlen Hall]. split; [cbn; lia|constructor; assumption].
    + intros [Hlen Hall]. destruct l as [|v t]; [discriminate|].
      inversion Hall; subst. exists v. split; [assumption|].
      apply in_map. apply IH. split; [cbn in Hlen; lia|assumption].
Qed.

Lemma domain_ok_spec L szs n :
  domain_ok L szs n = true ->
  forall sizes dm, length sizes = n -> length dm = n ->
    Forall (fun s => In s szs) sizes ->
    case_ok L sizes dm = true.
Proof.
  intros H sizes dm Hs Hd Hall. unfold domain_ok in H.
  rewrite forallb_forall in H.
  assert (In sizes (lists_of szs n)) as Hin by (apply lists_of_In; split; assumption).
  specialize (H sizes Hin). rewrite forallb_forall in H.
  apply H. apply lists_of_In. split; [assumption|].
  apply Forall_forall. intros x _. destruct x; cbn; tauto.
Qed.

Lemma dom_L4_n1 : domain_ok 4 [1;2;3;4;5;6;7;8;9] 1 = true. Proof. vm_compute. reflexivity. Qed.
Lemma dom_L4_n2 : domain_ok 4 [1;2;3;4;5;6;7;8;9] 2 = true. Proof. vm_compute. reflexivity. Qed.
Lemma dom_L4_n3 : domain_ok 4 [1;2;3;4;5;6] 3 = true. Proof. vm_compute. reflexivity. Qed.
Lemma dom_L3_n3 : domain_ok 3 [1;2;3;4;5] 3 = true. Proof. vm_compute. reflexivity. Qed.
Lemma dom_L2_n4 : domain_ok 2 [1;2;3] 4 = true. Proof. vm_compute. reflexivity. Qed.
Lemma dom_L4_n4 : domain_ok 4 [1;3;4;5] 4 = true. Proof. vm_compute. reflexivity. Qed.

(* zero-length bad entries: the property fails on the faithful model *)
Lemma zero_length_boundary_IndexError :
  iter_pieces (disk_of [0; 2] [DMissing; DOk]) [] (files_of [0; 2]) 2 = Err IIndex.
Proof. vm_compute. reflexivity. Qed.

Lemma zero_length_reported_twice :
  case_ok 1 [1; 0; 1] [DLong; DMissing; DMissing] = false /\
  exists items, iter_pieces (disk_of [1; 0; 1] [DLong; DMissing; DMissing]) [] (files_of [1; 0; 1]) 1 = Ok items /\
    count_reports (flat_map (fun it => snd it) items) XMissing 1 = 2.
Proof. split; [vm_compute; reflexivity|]. eexists. split; vm_compute; reflexivity. Qed.
