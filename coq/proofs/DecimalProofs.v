(* DecimalProofs.v -- decimal printing of integers and its inverse (used by the
   bencode round trip). *)
From Coq Require Import Lia ZifyBool.
From Torf Require Import Base Sexp Bencode.
Open Scope Z_scope.

(* value of a little-endian digit list *)
Fixpoint le_value (l : list N) : Z :=
  match l with [] => 0 | d :: r => Z.of_N d + 10 * le_value r end.

Definition digits_ok (l : list N) : Prop := Forall (fun d => (d < 10)%N) l.

Lemma dbl_spec l : forall c, digits_ok l -> (c < 2)%N ->
  le_value (dbl l c) = 2 * le_value l + Z.of_N c /\ digits_ok (dbl l c).
Proof.
  induction l as [|d r IH]; intros c Hl Hc; cbn [dbl le_value].
  - destruct (c =? 0)%N eqn:E; cbn [le_value]; split; try lia; try constructor; try lia. constructor.
  - inversion Hl as [|? ? Hd Hr]; subst.
    destruct (2 * d + c <? 10)%N eqn:E; cbn [le_value].
    + destruct (IH 0%N Hr ltac:(lia)) as [V O]. split; [lia|constructor; [lia|exact O]].
    + destruct (IH 1%N Hr ltac:(lia)) as [V O]. split; [lia|constructor; [lia|exact O]].
Qed.

(* most significant digit non-zero *)
Definition msd_ok (l : list N) : Prop := l <> [] /\ last l 0%N <> 0%N.

Lemma dbl_msd l : forall c, msd_ok l -> msd_ok (dbl l c).
Proof.
  induction l as [|d r IH]; intros c [Hne Hl]; [contradiction|].
  cbn [dbl]. destruct r as [|d2 r2].
  - cbn [last] in Hl. cbn [dbl].
    destruct (2 * d + c <? 10)%N eqn:E.
    + replace (0 =? 0)%N with true by reflexivity. split; [discriminate|]. cbn [last]. lia.
    + replace (1 =? 0)%N with false by reflexivity. split; [discriminate|]. cbn [last]. lia.
  - assert (msd_ok (d2 :: r2)) as Hr by (split; [discriminate|exact Hl]).
    destruct (2 * d + c <? 10)%N.
    + destruct (IH 0%N Hr) as [Hne' Hl']. split; [discriminate|].
      destruct (dbl (d2 :: r2) 0) eqn:Ed; [contradiction|]. exact Hl'.
    + destruct (IH 1%N Hr) as [Hne' Hl']. split; [discriminate|].
      destruct (dbl (d2 :: r2) 1) eqn:Ed; [contradiction|]. exact Hl'.
Qed.

Lemma pos_dec_le_spec p :
  le_value (pos_dec_le p) = Zpos p /\ digits_ok (pos_dec_le p) /\ msd_ok (pos_dec_le p).
Proof.
  induction p as [q [V [O M]]|q [V [O M]]|]; cbn [pos_dec_le].
  - destruct (dbl_spec (pos_dec_le q) 1%N O ltac:(lia)) as [V' O']. split; [lia|]. split; [exact O'|apply dbl_msd; exact M].
  - destruct (dbl_spec (pos_dec_le q) 0%N O ltac:(lia)) as [V' O']. split; [lia|]. split; [exact O'|apply dbl_msd; exact M].
  - cbn. split; [reflexivity|]. split; [repeat constructor; lia|]. split; [discriminate|cbn; lia].
Qed.

(* big-endian ASCII digits *)
Definition ascii_digits (l : list N) : Prop := Forall (fun c => is_digit c = true) l.

Lemma digits_value_snoc ds c acc :
  fold_left (fun acc c => acc * 10 + Z.of_N (c - 48)) (ds ++ [c]) acc =
  (fold_left (fun acc c => acc * 10 + Z.of_N (c - 48)) ds acc) * 10 + Z.of_N (c - 48).
Proof. rewrite fold_left_app. reflexivity. Qed.

Lemma digits_value_rev l : digits_ok l ->
  digits_value (rev (map (fun d => (48 + d)%N) l)) = le_value l.
Proof.
  unfold digits_value. induction l as [|d r IH]; intros H; [reflexivity|].
  inversion H; subst. cbn [map rev le_value]. rewrite digits_value_snoc, IH by assumption. lia.
Qed.

Lemma ascii_of_digits l : digits_ok l -> ascii_digits (rev (map (fun d => (48 + d)%N) l)).
Proof.
  intros H. unfold ascii_digits. apply Forall_rev. apply Forall_forall. intros c Hc.
  apply in_map_iff in Hc as (d & <- & Hd). apply (proj1 (Forall_forall _ _) H) in Hd.
  unfold is_digit. lia.
Qed.

Lemma digits_of_nonneg_spec z : 0 <= z ->
  ascii_digits (digits_of_nonneg z) /\ digits_value (digits_of_nonneg z) = z /\
  digits_of_nonneg z <> [] /\
  (0 < z -> hd 0%N (digits_of_nonneg z) <> 48%N) /\ (z = 0 -> digits_of_nonneg z = [48%N]).
Proof.
  intros Hz. destruct z as [|p|p]; [| |lia].
  - cbn. repeat split; try (repeat constructor); try discriminate; try lia.
  - destruct (pos_dec_le_spec p) as (V & O & [Mne Ml]). unfold digits_of_nonneg.
    split; [apply ascii_of_digits; exact O|]. split; [rewrite digits_value_rev by exact O; exact V|].
    split.
    + intros E. apply (f_equal (@length N)) in E. rewrite rev_length, map_length in E.
      destruct (pos_dec_le p); [contradiction|discriminate].
    + split; [|discriminate]. intros _.
      (* head of the reversed list is the last (most significant) digit *)
      destruct (pos_dec_le p) as [|d r] eqn:Ep; [contradiction|].
      assert (exists l' m, d :: r = l' ++ [m] /\ m = last (d :: r) 0%N) as (l' & m & El & Em).
      { exists (removelast (d :: r)), (last (d :: r) 0%N). split; [apply app_removelast_last; discriminate|reflexivity]. }
      rewrite El, map_app, rev_app_distr. cbn [map rev app hd].
      assert (m < 10)%N as Hm.
      { apply (proj1 (Forall_forall _ _) O). rewrite El. apply in_or_app. right. left. reflexivity. }
      subst m. lia.
Qed.

(* scanning digits up to a terminator *)
Lemma read_digits_until_spec stop ds : forall rest acc,
  ascii_digits ds -> is_digit stop = false ->
  read_digits_until stop (ds ++ stop :: rest) acc = Some (rev acc ++ ds, rest).
Proof.
  induction ds as [|c r IH]; intros rest acc Hd Hs; cbn [app read_digits_until].
  - rewrite N.eqb_refl, app_nil_r. reflexivity.
  - inversion Hd as [|? ? Hc Hr]; subst.
    destruct (c =? stop)%N eqn:E; [apply N.eqb_eq in E; subst; congruence|].
    rewrite Hc. rewrite IH by assumption. cbn [rev]. rewrite <- app_assoc. reflexivity.
Qed.

Definition int_ok (z : Z) : Prop := Z.of_nat (length (digits_of_nonneg (Z.abs z))) <= max_str_digits.

Theorem read_integer_dec z rest : int_ok z ->
  read_integer (dec_of_Z z ++ 101%N :: rest) = Ok (z, rest).
Proof.
  unfold int_ok. intros Hlen. unfold dec_of_Z, read_integer.
  destruct (z <? 0) eqn:En.
  - (* negative *)
    assert (0 < - z) as Hp by lia. replace (Z.abs z) with (- z) in Hlen by lia.
    destruct (digits_of_nonneg_spec (- z) ltac:(lia)) as (Ha & Hv & Hne & Hh & _).
    cbn [app]. rewrite N.eqb_refl. rewrite (read_digits_until_spec 101%N (digits_of_nonneg (- z)) rest []) by (assumption || reflexivity).
    cbn [rev app]. destruct (digits_of_nonneg (- z)) as [|d0 dr] eqn:Ed; [contradiction|].
    specialize (Hh Hp). cbn [hd] in Hh.
    replace (d0 =? 48)%N with false by lia. cbn [andb].
    replace (Z.of_nat (length (d0 :: dr)) >? max_str_digits) with false by lia.
    rewrite Hv. replace (- z =? 0) with false by lia. cbn [andb]. f_equal. f_equal. lia.
  - assert (0 <= z) as Hp by lia. replace (Z.abs z) with z in Hlen by lia.
    destruct (digits_of_nonneg_spec z Hp) as (Ha & Hv & Hne & Hh & H0).
    destruct (digits_of_nonneg z) as [|d0 dr] eqn:Ed; [contradiction|].
    assert (d0 <> 45%N) as Hnm.
    { inversion Ha as [|? ? Hc _]; subst. unfold is_digit in Hc. lia. }
    cbn [app]. replace (d0 =? 45)%N with false by lia.
    replace (d0 :: dr ++ 101%N :: rest) with ((d0 :: dr) ++ 101%N :: rest) by reflexivity.
    rewrite (read_digits_until_spec 101%N (d0 :: dr) rest []) by (assumption || reflexivity).
    cbn [rev app].
    destruct (Z.eq_dec z 0) as [->|Hnz].
    + specialize (H0 eq_refl). inversion H0; subst. cbn. reflexivity.
    + specialize (Hh ltac:(lia)). cbn [hd] in Hh.
      replace (d0 =? 48)%N with false by lia. cbn [andb].
      replace (Z.of_nat (length (d0 :: dr)) >? max_str_digits) with false by lia.
      rewrite Hv. replace (z =? 0) with false by lia. cbn [andb]. reflexivity.
Qed.

Definition str_ok (b : bytes) : Prop :=
  Z.of_nat (length (digits_of_nonneg (Z.of_nat (length b)))) <= max_str_digits.

Theorem read_string_dec b rest : str_ok b ->
  exists c r, benc_str b ++ rest = c :: r /\ is_digit c = true /\ read_string c r = Ok (b, rest).
Proof.
  unfold str_ok. intros Hlen. unfold benc_str, dec_of_Z.
  replace (Z.of_nat (length b) <? 0) with false by lia.
  destruct (digits_of_nonneg_spec (Z.of_nat (length b)) ltac:(lia)) as (Ha & Hv & Hne & _ & _).
  destruct (digits_of_nonneg (Z.of_nat (length b))) as [|d0 dr] eqn:Ed; [contradiction|].
  exists d0, (dr ++ 58%N :: b ++ rest). split; [cbn [app]; rewrite <- app_assoc; reflexivity|].
  split; [inversion Ha; assumption|].
  unfold read_string.
  replace (d0 :: dr ++ 58%N :: b ++ rest) with ((d0 :: dr) ++ 58%N :: (b ++ rest)) by reflexivity.
  rewrite (read_digits_until_spec 58%N (d0 :: dr) (b ++ rest) []) by (assumption || reflexivity).
  cbn [rev app].
  replace (Z.of_nat (length (d0 :: dr)) >? max_str_digits) with false by lia.
  rewrite Hv. rewrite app_length.
  replace (Z.of_nat (length b) >? Z.of_nat (length b + length rest)) with false by lia.
  rewrite Nat2Z.id. rewrite firstn_app, skipn_app, Nat.sub_diag. cbn [firstn skipn].
  rewrite firstn_all, skipn_all, app_nil_r. reflexivity.
Qed.
