(* PipelineProofs.v -- properties of the collector and the progress callbacks that
   hold for every schedule, every number of threads and every input, by
   invariants over the small-step model (Pipeline.v). *)
From Coq Require Import Lia ZifyBool Sorted.
From Torf Require Import Base Pipeline.
Open Scope Z_scope.

(* states reachable under any schedule and any (non-negative) advance of the clock *)
Inductive reach (c : config) : state -> Prop :=
| r_init : reach c (init c)
| r_step s t a inc : reach c s -> enabled c s t a = true -> 0 <= inc -> reach c (step c s t a inc).

Definition c_done (x : Z * Z * option Z) : Z := fst (fst x).
Definition c_idx (x : Z * Z * option Z) : Z := snd (fst x).
Definition c_err (x : Z * Z * option Z) : option Z := snd x.

(* ---- one collected item (any clock, any interval) ---- *)
Definition batch (done idx : Z) (es : list (option Z)) : list (Z * Z * option Z) := map (fun e => (done, idx, e)) es.

(* the calls made for one collected item: nothing, or a batch for this item *)
Lemma collect_item_calls c s idx h exc :
  exists es, s_calls (collect_item c s idx h exc) = s_calls s ++ batch (zlen (s_seen s)) idx es /\
             (forall e, In e es -> length es = 1%nat \/ e <> None).
Proof.
  unfold collect_item.
  destruct (_ || (s_now s - s_prev s >=? cf_interval c)); [|exists []; rewrite app_nil_r; split; [reflexivity|intros e []]].
  assert (Huser : forall es, (forall e, In e es -> length es = 1%nat \/ e <> None) ->
    exists es', s_calls (match user_cb c (zlen (s_seen s)) with
                         | None => set_mpc (upd_collector (upd_collector s (s_seen s) (s_hashes s) (s_now s) (s_calls s)) (s_seen s) (s_hashes s) (s_now s)
                                              (s_calls s ++ map (fun e => (zlen (s_seen s), idx, e)) es)) MGet
                         | Some raises =>
                             if raises then set_mpc (upd_collector (upd_collector s (s_seen s) (s_hashes s) (s_now s) (s_calls s)) (s_seen s) (s_hashes s) (s_now s)
                                              (s_calls s ++ map (fun e => (zlen (s_seen s), idx, e)) (firstn 1 es))) (MStopRead (AFinal (ORaise (-1))))
                             else set_mpc (upd_collector (upd_collector s (s_seen s) (s_hashes s) (s_now s) (s_calls s)) (s_seen s) (s_hashes s) (s_now s)
                                              (s_calls s ++ map (fun e => (zlen (s_seen s), idx, e)) (firstn 1 es))) (MStopRead AContinue)
                         end) = s_calls s ++ batch (zlen (s_seen s)) idx es' /\
                (forall e, In e es' -> length es' = 1%nat \/ e <> None)).
  { intros es Hes. destruct (user_cb c (zlen (s_seen s))) as [[|]|].
    - exists (firstn 1 es). split; [reflexivity|]. intros e He. left. destruct es; [destruct He|reflexivity].
    - exists (firstn 1 es). split; [reflexivity|]. intros e He. left. destruct es; [destruct He|reflexivity].
    - exists es. split; [reflexivity|exact Hes]. }
  destruct (cf_verify c) as [ex|].
  - destruct (has_user_cb c).
    + apply Huser. intros e He. destruct exc as [|x r].
      * destruct (mismatch c idx h); cbn in He; destruct He as [<-|[]]; left; reflexivity.
      * right. cbn [map] in He. destruct He as [<-|He]; [discriminate|]. apply in_map_iff in He as (y & <- & _). discriminate.
    + exists []. rewrite app_nil_r. split; [|intros e []].
      destruct exc; [destruct (mismatch c idx h)|]; reflexivity.
  - destruct exc as [|x r].
    + destruct (has_user_cb c); [apply Huser; intros e [<-|[]]; left; reflexivity|].
      exists []. rewrite app_nil_r. split; [reflexivity|intros e []].
    + exists []. rewrite app_nil_r. split; [reflexivity|intros e []].
Qed.

(* a forced report (error, completion, hash mismatch) is delivered whatever the interval and the clock say *)
Lemma collect_item_forced c s idx h exc :
  has_user_cb c = true -> (cf_verify c <> None \/ exc = []) ->
  (exc <> [] \/ zlen (s_seen s) >= cf_total c \/ mismatch c idx h = true) ->
  exists e es, s_calls (collect_item c s idx h exc) = s_calls s ++ batch (zlen (s_seen s)) idx (e :: es).
Proof.
  intros Hcb Hmode Hforce. unfold collect_item.
  assert (Hf : (match exc with _ :: _ => true | [] => (zlen (s_seen s) >=? cf_total c) || mismatch c idx h end) = true).
  { destruct exc; [|reflexivity]. destruct Hforce as [C|[C|C]]; [exfalso; apply C; reflexivity|lia|rewrite C; apply orb_true_r]. }
  rewrite Hf. cbn [orb]. rewrite Hcb.
  assert (Huser : forall e0 es0, exists e es,
    s_calls (match user_cb c (zlen (s_seen s)) with
             | None => set_mpc (upd_collector (upd_collector s (s_seen s) (s_hashes s) (s_now s) (s_calls s)) (s_seen s) (s_hashes s) (s_now s)
                                  (s_calls s ++ map (fun e => (zlen (s_seen s), idx, e)) (e0 :: es0))) MGet
             | Some raises =>
                 if raises then set_mpc (upd_collector (upd_collector s (s_seen s) (s_hashes s) (s_now s) (s_calls s)) (s_seen s) (s_hashes s) (s_now s)
                                  (s_calls s ++ map (fun e => (zlen (s_seen s), idx, e)) (firstn 1 (e0 :: es0)))) (MStopRead (AFinal (ORaise (-1))))
                 else set_mpc (upd_collector (upd_collector s (s_seen s) (s_hashes s) (s_now s) (s_calls s)) (s_seen s) (s_hashes s) (s_now s)
                                  (s_calls s ++ map (fun e => (zlen (s_seen s), idx, e)) (firstn 1 (e0 :: es0)))) (MStopRead AContinue)
             end) = s_calls s ++ batch (zlen (s_seen s)) idx (e :: es)).
  { intros e0 es0. destruct (user_cb c (zlen (s_seen s))) as [[|]|]; [exists e0, []|exists e0, []|exists e0, es0]; reflexivity. }
  destruct (cf_verify c) as [ex|].
  - destruct exc as [|x r]; [destruct (mismatch c idx h)|]; apply Huser.
  - destruct Hmode as [C| ->]; [exfalso; apply C; reflexivity|]. apply Huser.
Qed.

(* a quiet callback receives every error of the item, and a hash mismatch as a content error *)
Lemma collect_item_reports_errors c s idx h exc ex :
  cf_plan c = CbQuiet -> cf_verify c = Some ex -> exc <> [] ->
  s_calls (collect_item c s idx h exc) = s_calls s ++ batch (zlen (s_seen s)) idx (map Some exc).
Proof.
  intros Hp Hv Hne. unfold collect_item, has_user_cb, user_cb. rewrite Hp, Hv.
  destruct exc as [|x r]; [exfalso; apply Hne; reflexivity|]. reflexivity.
Qed.

Lemma collect_item_reports_mismatch c s idx h ex :
  cf_plan c = CbQuiet -> cf_verify c = Some ex -> mismatch c idx h = true ->
  s_calls (collect_item c s idx h []) = s_calls s ++ [(zlen (s_seen s), idx, Some 1000)].
Proof.
  intros Hp Hv Hm. unfold collect_item, has_user_cb, user_cb. rewrite Hp, Hv, Hm. rewrite orb_true_r. reflexivity.
Qed.

(* with a zero interval every item is reported (the clock never runs backwards) *)
Lemma collect_item_interval0 c s idx h exc :
  cf_interval c = 0 -> s_prev s <= s_now s -> has_user_cb c = true -> (cf_verify c <> None \/ exc = []) ->
  exists e es, s_calls (collect_item c s idx h exc) = s_calls s ++ batch (zlen (s_seen s)) idx (e :: es).
Proof.
  intros Hi Hclock Hcb Hmode. unfold collect_item. rewrite Hi.
  replace (s_now s - s_prev s >=? 0) with true by lia. rewrite orb_true_r. rewrite Hcb.
  assert (Huser : forall e0 es0, exists e es,
    s_calls (match user_cb c (zlen (s_seen s)) with
             | None => set_mpc (upd_collector (upd_collector s (s_seen s) (s_hashes s) (s_now s) (s_calls s)) (s_seen s) (s_hashes s) (s_now s)
                                  (s_calls s ++ map (fun e => (zlen (s_seen s), idx, e)) (e0 :: es0))) MGet
             | Some raises =>
                 if raises then set_mpc (upd_collector (upd_collector s (s_seen s) (s_hashes s) (s_now s) (s_calls s)) (s_seen s) (s_hashes s) (s_now s)
                                  (s_calls s ++ map (fun e => (zlen (s_seen s), idx, e)) (firstn 1 (e0 :: es0)))) (MStopRead (AFinal (ORaise (-1))))
                 else set_mpc (upd_collector (upd_collector s (s_seen s) (s_hashes s) (s_now s) (s_calls s)) (s_seen s) (s_hashes s) (s_now s)
                                  (s_calls s ++ map (fun e => (zlen (s_seen s), idx, e)) (firstn 1 (e0 :: es0)))) (MStopRead AContinue)
             end) = s_calls s ++ batch (zlen (s_seen s)) idx (e :: es)).
  { intros e0 es0. destruct (user_cb c (zlen (s_seen s))) as [[|]|]; [exists e0, []|exists e0, []|exists e0, es0]; reflexivity. }
  destruct (cf_verify c) as [ex|].
  - destruct exc as [|x r]; [destruct (mismatch c idx h)|]; apply Huser.
  - destruct Hmode as [C| ->]; [exfalso; apply C; reflexivity|]. apply Huser.
Qed.

Lemma collect_item_seen c s idx h exc : s_seen (collect_item c s idx h exc) = s_seen s.
Proof.
  unfold collect_item. destruct (_ || _); [|reflexivity].
  destruct (cf_verify c); destruct exc; destruct (has_user_cb c); try destruct (mismatch c idx h); try destruct (user_cb c _) as [[|]|]; reflexivity.
Qed.

Lemma collect_item_not_clock c s idx h exc : forall i h' e', s_mpc (collect_item c s idx h exc) <> MClock i h' e'.
Proof.
  intros i h' e'. unfold collect_item. destruct (_ || _); [|cbn; discriminate].
  destruct (cf_verify c); destruct exc; destruct (has_user_cb c); try destruct (mismatch c idx h); try destruct (user_cb c _) as [[|]|]; cbn; discriminate.
Qed.

(* ---- the done counter over whole runs ---- *)
(* calls are ordered by done; a value repeats only within the batch of one piece, to deliver its errors *)
Definition call_lt (a b : Z * Z * option Z) : Prop :=
  c_done a < c_done b \/ (c_done a = c_done b /\ c_idx a = c_idx b /\ c_err b <> None).

Definition calls_ok (n : Z) (calls : list (Z * Z * option Z)) : Prop :=
  Forall (fun x => 1 <= c_done x <= n) calls /\ StronglySorted call_lt calls.

Lemma calls_ok_weaken n m calls : n <= m -> calls_ok n calls -> calls_ok m calls.
Proof. intros Hnm [H1 H2]. split; [|exact H2]. eapply Forall_impl; [|exact H1]. cbn. intros x Hx. lia. Qed.

Lemma StronglySorted_app {X} (R : X -> X -> Prop) l1 l2 :
  StronglySorted R l1 -> StronglySorted R l2 -> (forall a b, In a l1 -> In b l2 -> R a b) -> StronglySorted R (l1 ++ l2).
Proof.
  induction 1 as [|x l1 Hs IH Hx]; intros H2 Hc; cbn [app]; [exact H2|].
  constructor; [apply IH; [exact H2|intros a b Ha Hb; apply Hc; [right; exact Ha|exact Hb]]|].
  apply Forall_app. split; [exact Hx|]. apply Forall_forall. intros b Hb. apply Hc; [left; reflexivity|exact Hb].
Qed.

Lemma batch_sorted done idx es :
  (forall e, In e es -> length es = 1%nat \/ e <> None) -> StronglySorted call_lt (batch done idx es).
Proof.
  induction es as [|e es IH]; intros Hes; cbn [batch map]; [constructor|].
  constructor.
  - apply IH. intros x Hx. right. destruct (Hes x (or_intror Hx)) as [C|C]; [cbn in C; destruct es; [destruct Hx|discriminate C]|exact C].
  - apply Forall_forall. intros b Hb. apply in_map_iff in Hb as (x & <- & Hx). right. cbn.
    repeat split. destruct (Hes x (or_intror Hx)) as [C|C]; [cbn in C; destruct es; [destruct Hx|discriminate C]|exact C].
Qed.

Lemma calls_ok_batch n calls idx es :
  1 <= n -> calls_ok (n - 1) calls -> (forall e, In e es -> length es = 1%nat \/ e <> None) ->
  calls_ok n (calls ++ batch n idx es).
Proof.
  intros Hn [H1 H2] Hes. split.
  - apply Forall_app. split; [eapply Forall_impl; [|exact H1]; cbn; intros x Hx; lia|].
    apply Forall_forall. intros b Hb. apply in_map_iff in Hb as (x & <- & _). cbn. lia.
  - apply StronglySorted_app; [exact H2|apply batch_sorted; exact Hes|].
    intros a b Ha Hb. left. rewrite Forall_forall in H1. specialize (H1 a Ha). cbn in H1.
    apply in_map_iff in Hb as (x & <- & _). cbn. lia.
Qed.

(* the invariant: before the clock read of a freshly collected item the calls made so far
   concern strictly earlier values of the counter *)
Definition PInv (s : state) : Prop :=
  s_prev s <= s_now s /\
  match s_mpc s with
  | MClock _ _ _ => 1 <= zlen (s_seen s) /\ calls_ok (zlen (s_seen s) - 1) (s_calls s)
  | _ => calls_ok (zlen (s_seen s)) (s_calls s)
  end.

Definition cview (s : state) := (s_seen s, s_calls s, s_mpc s, s_prev s).

Lemma reader_next_cview s todo idx : cview (reader_next s todo idx) = cview s.
Proof. unfold reader_next. destruct todo as [|[]]; reflexivity. Qed.

Lemma step_reader_cview s : cview (step_reader s) = cview s.
Proof.
  unfold step_reader. destruct (s_rpc s).
  - destruct (s_stop s); [reflexivity|]. destruct (s_rtodo s) as [|[]]; reflexivity.
  - rewrite reader_next_cview. reflexivity.
  - destruct (_ >=? _); [destruct (negb _)|]; try rewrite reader_next_cview; reflexivity.
  - reflexivity.
  - reflexivity.
Qed.

Lemma step_reader_now s : s_now (step_reader s) = s_now s.
Proof.
  assert (Hn : forall s todo idx, s_now (reader_next s todo idx) = s_now s) by (intros s0 todo idx; unfold reader_next; destruct todo as [|[]]; reflexivity).
  unfold step_reader. destruct (s_rpc s).
  - destruct (s_stop s); [reflexivity|]. destruct (s_rtodo s) as [|[]]; reflexivity.
  - rewrite Hn. reflexivity.
  - destruct (_ >=? _); [destruct (negb _)|]; try rewrite Hn; reflexivity.
  - reflexivity.
  - reflexivity.
Qed.

Lemma step_hasher_cview s i a : cview (step_hasher s i a) = cview s.
Proof.
  unfold step_hasher. destruct (nth_error (s_hs s) i) as [[[] pc]|]; try reflexivity.
  destruct pc; try reflexivity. destruct a.
  - destruct (s_pq s) as [|[] r]; reflexivity.
  - destruct (Nat.eqb i 0); reflexivity.
Qed.

Lemma step_hasher_now s i a : s_now s <= s_now (step_hasher s i a).
Proof.
  unfold step_hasher. destruct (nth_error (s_hs s) i) as [[[] pc]|]; try lia.
  destruct pc; try (cbn; lia). destruct a.
  - destruct (s_pq s) as [|[] r]; cbn; lia.
  - destruct (Nat.eqb i 0); cbn; lia.
Qed.

Lemma step_janitor_cview s a : cview (step_janitor s a) = cview s.
Proof.
  unfold step_janitor. destruct (s_jpc s) as [|[|t r]|[|t r]| |]; try reflexivity.
  - destruct a; destruct (s_tracked s); reflexivity.
  - destruct (is_alive s t); [reflexivity|destruct r; reflexivity].
  - destruct r; reflexivity.
Qed.

Lemma step_janitor_now s a : s_now s <= s_now (step_janitor s a).
Proof.
  unfold step_janitor. destruct (s_jpc s) as [|[|t r]|[|t r]| |]; try (cbn; lia).
  - destruct a; destruct (s_tracked s); cbn; lia.
  - destruct (is_alive s t); [cbn; lia|destruct r; cbn; lia].
  - destruct r; cbn; lia.
Qed.

Lemma PInv_of_cview s s' : cview s' = cview s -> s_now s <= s_now s' -> PInv s -> PInv s'.
Proof.
  unfold cview, PInv. intros E Hn [H1 H2]. injection E as E1 E2 E3 E4. rewrite E1, E2, E3, E4. split; [lia|exact H2].
Qed.

Lemma calls_ok_of_inv s : PInv s -> calls_ok (zlen (s_seen s)) (s_calls s).
Proof.
  intros [_ H]. destruct (s_mpc s); try exact H. destruct H as [Hn H]. apply (calls_ok_weaken (zlen (s_seen s) - 1)); [lia|exact H].
Qed.

Lemma zlen_app1 {X} (l : list X) x : zlen (l ++ [x]) = zlen l + 1.
Proof. unfold zlen. rewrite app_length. cbn. lia. Qed.

Lemma start_thread_cview s t : cview (start_thread s t) = cview s.
Proof.
  unfold start_thread. destruct (t =? 1); [rewrite reader_next_cview; reflexivity|]. destruct (t =? 2); reflexivity.
Qed.
Lemma start_thread_now s t : s_now (start_thread s t) = s_now s.
Proof.
  unfold start_thread. destruct (t =? 1); [|destruct (t =? 2); reflexivity].
  unfold reader_next. destruct (s_rtodo s) as [|[]]; reflexivity.
Qed.

Lemma PInv_set_mpc s pc : (forall i h e, pc <> MClock i h e) -> PInv s -> PInv (set_mpc s pc).
Proof.
  intros Hpc Hinv. pose proof (calls_ok_of_inv s Hinv) as Hc. destruct Hinv as [H1 _]. split; [exact H1|].
  cbn [set_mpc s_mpc s_seen s_calls]. destruct pc; try exact Hc. exfalso. eapply Hpc. reflexivity.
Qed.

Lemma PInv_finish c s o : PInv s -> PInv (finish c s o).
Proof.
  intros Hinv. pose proof (calls_ok_of_inv s Hinv) as Hc. destruct Hinv as [H1 _].
  unfold finish. destruct o; (split; [exact H1|exact Hc]).
Qed.

Lemma step_main_inv c s inc : 0 <= inc -> PInv s -> PInv (step_main c s inc).
Proof.
  intros Hinc Hinv. unfold step_main. destruct (s_mpc s) eqn:Empc.
  - apply PInv_set_mpc; [discriminate|exact Hinv].
  - destruct (refused c t).
    + destruct ((t =? 1) || (t =? 2) || (t =? 3)).
      * pose proof (calls_ok_of_inv s Hinv) as Hc. destruct Hinv as [H1 _]. split; [exact H1|exact Hc].
      * destruct (next_to_start c t); apply PInv_set_mpc; try discriminate; exact Hinv.
    + assert (Hst : PInv (start_thread s t)).
      { apply (PInv_of_cview s); [apply start_thread_cview|rewrite start_thread_now; lia|exact Hinv]. }
      destruct (next_to_start c t); apply PInv_set_mpc; try discriminate; exact Hst.
  - destruct (s_hq s) as [|[|idx h exc] r] eqn:Ehq; [exact Hinv| |].
    + apply PInv_set_mpc; [discriminate|]. apply (PInv_of_cview s); [reflexivity|cbn; lia|exact Hinv].
    + destruct (existsb (Z.eqb idx) (s_seen (set_hq s r))).
      * apply PInv_set_mpc; [discriminate|]. apply (PInv_of_cview s); [reflexivity|cbn; lia|exact Hinv].
      * pose proof (calls_ok_of_inv s Hinv) as Hc. destruct Hinv as [H1 _]. split; [exact H1|].
        cbn [set_mpc upd_collector set_hq s_mpc s_seen s_calls]. rewrite zlen_app1. split; [unfold zlen; lia|].
        replace (zlen (s_seen s) + 1 - 1) with (zlen (s_seen s)) by lia. exact Hc.
  - (* the clock read: the batch of this item *)
    destruct Hinv as [H1 H2]. rewrite Empc in H2. destruct H2 as [Hn Hc].
    set (s1 := set_now s (s_now s + inc)).
    destruct (collect_item_calls c s1 idx h exc) as (es & Ecalls & Hes).
    pose proof (collect_item_seen c s1 idx h exc) as Eseen.
    pose proof (collect_item_not_clock c s1 idx h exc) as Hnc.
    split.
    + (* prev <= now *)
      unfold collect_item. destruct (_ || _); [|cbn; lia].
      destruct (cf_verify c); destruct exc; destruct (has_user_cb c); try destruct (mismatch c idx h); try destruct (user_cb c _) as [[|]|]; cbn; lia.
    + assert (Hok : calls_ok (zlen (s_seen (collect_item c s1 idx h exc))) (s_calls (collect_item c s1 idx h exc))).
      { rewrite Eseen, Ecalls. apply calls_ok_batch; [exact Hn|exact Hc|exact Hes]. }
      destruct (s_mpc (collect_item c s1 idx h exc)) eqn:E; try exact Hok. exfalso. eapply Hnc. reflexivity.
  - destruct (s_stop s); [destruct a|]; apply PInv_set_mpc; try discriminate; exact Hinv.
  - assert (Hs : PInv (set_stop s true)) by (apply (PInv_of_cview s); [reflexivity|cbn; lia|exact Hinv]).
    destruct a; apply PInv_set_mpc; try discriminate; exact Hs.
  - destruct (is_alive s 1); apply PInv_set_mpc; try discriminate; try exact Hinv.
    unfold next_hasher. destruct (nth_error _ _); discriminate.
  - apply PInv_set_mpc; [|exact Hinv]. unfold next_hasher. destruct (nth_error _ _); discriminate.
  - destruct (is_alive s t); apply PInv_set_mpc; try discriminate; try exact Hinv.
    unfold next_hasher. destruct (nth_error _ _); discriminate.
  - apply PInv_set_mpc; [|exact Hinv]. unfold next_hasher. destruct (nth_error _ _); discriminate.
  - destruct (is_alive s 2); [apply PInv_set_mpc; [discriminate|exact Hinv]|apply PInv_finish; exact Hinv].
  - apply PInv_finish. exact Hinv.
  - exact Hinv.
Qed.

Lemma PInv_init c : PInv (init c).
Proof. split; [cbn; lia|]. cbn. split; constructor. Qed.

Theorem progress_invariant c s : reach c s -> PInv s.
Proof.
  induction 1 as [|s t a inc Hr IH Hen Hinc]; [apply PInv_init|].
  unfold step. destruct (t =? 0); [apply step_main_inv; assumption|].
  destruct (t =? 1).
  - destruct (s_rpc s); try (apply (PInv_of_cview s); [apply step_reader_cview|rewrite step_reader_now; lia|exact IH]).
    apply (PInv_of_cview s); [rewrite step_reader_cview; reflexivity|rewrite step_reader_now; cbn; lia|exact IH].
  - destruct (t =? 2).
    + apply (PInv_of_cview s); [apply step_janitor_cview|apply step_janitor_now|exact IH].
    + apply (PInv_of_cview s); [apply step_hasher_cview|apply step_hasher_now|exact IH].
Qed.

(* C12: at any moment of any run the reported counter values are within 1 .. (pieces collected so far),
   never decrease, and repeat only inside the batch of one piece, to deliver its errors *)
Theorem done_counter_ok c s :
  reach c s -> calls_ok (zlen (s_seen s)) (s_calls s).
Proof. intros H. apply calls_ok_of_inv. apply progress_invariant with (c := c). exact H. Qed.

Lemma enabled_of_In c s t a : In (t, a) (options c s) -> enabled c s t a = true.
Proof.
  intros H. unfold enabled. apply existsb_exists. exists (t, a). split; [exact H|]. cbn [fst snd].
  rewrite Z.eqb_refl. destruct a; reflexivity.
Qed.

Lemma auto_go_reach c : forall fuel s last, reach c s -> reach c (auto_go fuel c s last).
Proof.
  induction fuel as [|f IH]; intros s last Hr; cbn [auto_go]; [exact Hr|].
  destruct (filter (fun o : tid * alt => last <? fst o) (options c s) ++ options c s) as [|[t a] r] eqn:E; [exact Hr|].
  apply IH. apply r_step; [exact Hr| |lia]. apply enabled_of_In.
  assert (Hin : In (t, a) (filter (fun o : tid * alt => last <? fst o) (options c s) ++ options c s)) by (rewrite E; left; reflexivity).
  apply in_app_or in Hin as [Hin|Hin]; [apply filter_In in Hin as [Hin _]; exact Hin|exact Hin].
Qed.

Lemma auto_run_reach c fuel s : reach c s -> reach c (auto_run fuel c s).
Proof. apply auto_go_reach. Qed.
