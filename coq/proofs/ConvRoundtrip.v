(* ConvRoundtrip.v -- C05 (converter layer): decode_value inverts encode_value on
   metainfo values in normal form (the form read_stream produces). *)
From Coq Require Import Lia ZifyBool.
From Torf Require Import Base Sexp Bencode PyVal Convert BencodeProofs ConvertProofs RoundtripProofs.
Open Scope Z_scope.

(* normal form: text / non-UTF-8 bytes / ints / lists / dicts with text keys in sorted order *)
Inductive nf : pyval -> Prop :=
| nf_int z : nf (PInt z)
| nf_str s : utf8_valid s = true -> nf (PStr s)
| nf_bytes b : utf8_valid b = false -> nf (PBytes b)
| nf_list l : Forall nf l -> nf (PList l)
| nf_dict kvs skvs :
    str_keys kvs = Some skvs -> kstrict skvs ->
    Forall (fun kv => utf8_valid (fst kv) = true) skvs ->
    Forall (fun kv => nf (snd kv)) skvs -> nf (PDict kvs).

Lemma mapM_roundtrip {A B} (f : A -> res B) (g : B -> res A) : forall l l',
  (forall x y, In x l -> f x = Ok y -> g y = Ok x) -> mapM f l = Ok l' -> mapM g l' = Ok l.
Proof.
  induction l as [|a r IH]; intros l' Hfg H; cbn [mapM] in H.
  - inversion H; reflexivity.
  - apply bind_ok in H as (b & Hb & H). apply bind_ok in H as (bs & Hbs & H). inversion H; subst.
    cbn [mapM]. rewrite (Hfg a b (or_introl eq_refl) Hb). cbn [bind].
    rewrite (IH bs (fun x y Hx => Hfg x y (or_intror Hx)) Hbs). reflexivity.
Qed.

Lemma str_keys_inv kvs : forall skvs, str_keys kvs = Some skvs ->
  kvs = map (fun kv => (PStr (fst kv), snd kv)) skvs.
Proof.
  induction kvs as [|[k v] r IH]; intros skvs H; cbn [str_keys] in H.
  - inversion H; reflexivity.
  - destruct k; try discriminate. destruct (str_keys r) as [l|] eqn:E; [|discriminate].
    inversion H; subst. cbn [map fst snd]. f_equal. apply IH. reflexivity.
Qed.

Lemma dv_list f l : decode_value (S f) (BList l) = (do l' <- mapM (decode_value f) l; Ok (PList l')).
Proof. reflexivity. Qed.
Lemma dv_dict f kvs : decode_value (S (S f)) (BDict kvs) =
  (do l' <- mapM (fun kv => do v' <- decode_value f (snd kv);
                          Ok (if utf8_valid (fst kv) then PStr (fst kv) else PBytes (fst kv), v')) kvs;
   Ok (PDict l')).
Proof. reflexivity. Qed.

Section NfInd.
Variable P : pyval -> Prop.
Hypothesis Hi : forall z, P (PInt z).
Hypothesis Hs : forall s, utf8_valid s = true -> P (PStr s).
Hypothesis Hb : forall b, utf8_valid b = false -> P (PBytes b).
Hypothesis Hl : forall l, Forall nf l -> Forall P l -> P (PList l).
Hypothesis Hd : forall kvs skvs, str_keys kvs = Some skvs -> kstrict skvs ->
  Forall (fun kv => utf8_valid (fst kv) = true) skvs ->
  Forall (fun kv => nf (snd kv)) skvs ->
  Forall (fun kv => P (snd kv)) skvs -> P (PDict kvs).
Fixpoint nf_ind' (v : pyval) (H : nf v) {struct H} : P v :=
  match H with
  | nf_int z => Hi z
  | nf_str s e => Hs s e
  | nf_bytes b e => Hb b e
  | nf_list l Hf =>
      Hl l Hf ((fix go (l : list pyval) (Hf : Forall nf l) {struct Hf} : Forall P l :=
                  match Hf with
                  | Forall_nil _ => Forall_nil _
                  | @Forall_cons _ _ x r hx hr => Forall_cons x (nf_ind' x hx) (go r hr)
                  end) l Hf)
  | nf_dict kvs skvs e ks Hu Hf =>
      Hd kvs skvs e ks Hu Hf
         ((fix go (l : list (bytes * pyval)) (Hf : Forall (fun kv => nf (snd kv)) l)
               {struct Hf} : Forall (fun kv => P (snd kv)) l :=
             match Hf with
             | Forall_nil _ => Forall_nil _
             | @Forall_cons _ _ x r hx hr => Forall_cons x (nf_ind' (snd x) hx) (go r hr)
             end) skvs Hf)
  end.
End NfInd.

Lemma dict_roundtrip f f' : forall skvs enc,
  Forall (fun kv => utf8_valid (fst kv) = true /\
                    forall b, encode_value f (snd kv) = Ok b -> decode_value f' b = Ok (snd kv)) skvs ->
  mapM (fun kv => do v' <- encode_value f (snd kv); Ok (fst kv, v')) skvs = Ok enc ->
  mapM (fun kv : bytes * bval => do v' <- decode_value f' (snd kv);
               Ok (if utf8_valid (fst kv) then PStr (fst kv) else PBytes (fst kv), v')) enc
    = Ok (map (fun kv => (PStr (fst kv), snd kv)) skvs).
Proof.
  induction skvs as [|[k v] r IH]; intros enc Hall H; cbn [mapM] in H.
  - inversion H; reflexivity.
  - inversion Hall as [|? ? [Hk Hv] Hr]; subst. cbn [fst snd] in *.
    apply bind_ok in H as (y & Hy & H). apply bind_ok in Hy as (v' & Hv' & Hy). inversion Hy; subst.
    apply bind_ok in H as (ys & Hys & H). inversion H; subst.
    cbn [mapM fst snd map]. rewrite (Hv v' Hv'). cbn [bind]. rewrite Hk.
    rewrite (IH ys Hr Hys). reflexivity.
Qed.

Theorem decode_encode_nf v : nf v ->
  forall f b, encode_value f v = Ok b -> forall f', (f <= f')%nat -> decode_value f' b = Ok v.
Proof.
  intros Hnf. induction Hnf as [z|s Hs|b0 Hb|l Hl IH|kvs skvs Hk Hst Hu Hf IH] using nf_ind'; intros f b H f' Hle;
    (destruct f as [|f]; [discriminate|]); (destruct f' as [|f']; [lia|]).
  - cbn in H. inversion H; subst. reflexivity.
  - cbn in H. inversion H; subst. cbn. rewrite Hs. reflexivity.
  - cbn in H. inversion H; subst. cbn. rewrite Hb. reflexivity.
  - rewrite ev_list in H. apply bind_ok in H as (l' & Hm & H). inversion H; subst.
    rewrite dv_list. rewrite (mapM_roundtrip (encode_value f) (decode_value f') l l'); [reflexivity| |exact Hm].
    intros x y Hx Hxy. apply (proj1 (Forall_forall _ _) IH x Hx f y Hxy). lia.
  - rewrite ev_dict in H. destruct f as [|f]; [discriminate|]. rewrite ed_eq in H. rewrite Hk in H.
    rewrite (sort_kvs_strict skvs Hst) in H.
    apply bind_ok in H as (enc & Hm & H). inversion H; subst.
    destruct f' as [|f']; [lia|].
    rewrite dv_dict. rewrite (dict_roundtrip f f' skvs enc); [|clear Hm|exact Hm].
    + cbn [bind]. rewrite <- (str_keys_inv kvs skvs Hk). reflexivity.
    + apply Forall_forall. intros kv Hkv. split; [apply (proj1 (Forall_forall _ _) Hu kv Hkv)|].
      intros b Hb. apply (proj1 (Forall_forall _ _) IH kv Hkv f b Hb). lia.
Qed.
