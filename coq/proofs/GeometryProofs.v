(* GeometryProofs.v -- the geometry methods of TorrentFileStream equal their
   arithmetic definition on the concatenated stream. *)
From Coq Require Import Lia ZifyBool FinFun.
From Torf Require Import Base Extracted Geometry.
Open Scope Z_scope.
Ltac Zify.zify_post_hook ::= Z.to_euclidean_division_equations.

Definition nonneg (fs : list file) : Prop := Forall (fun f => 0 <= fsize f) fs.
Definition allpos (fs : list file) : Prop := Forall (fun f => 0 < fsize f) fs.

Lemma allpos_nonneg fs : allpos fs -> nonneg fs.
Proof. unfold allpos, nonneg. apply Forall_impl. intros; lia. Qed.

Lemma In_firstn {X} (x : X) k l : In x (firstn k l) -> In x l.
Proof.
  revert l; induction k as [|k IH]; intros [|y l] H; cbn [firstn] in H; try (destruct H; fail).
  destruct H as [->|H]; [left; reflexivity|right; apply IH; exact H].
Qed.

Lemma total_size_nonneg fs : nonneg fs -> 0 <= total_size fs.
Proof.
  unfold total_size. induction 1 as [|f r Hf _ IH]; cbn [map sumZ]; lia.
Qed.

Lemma file_eqb_spec a b : file_eqb a b = true <-> a = b.
Proof.
  destruct a as [a1 a2], b as [b1 b2]. unfold file_eqb; cbn [fst snd].
  split.
  - intros H. apply andb_true_iff in H as [H1 H2].
    apply Z.eqb_eq in H1, H2. congruence.
  - intros H. inversion H; subst. rewrite !Z.eqb_refl. reflexivity.
Qed.

Lemma file_eqb_refl a : file_eqb a a = true.
Proof. apply file_eqb_spec; reflexivity. Qed.

Lemma file_eqb_neq a b : a <> b -> file_eqb a b = false.
Proof.
  intros H. destruct (file_eqb a b) eqn:E; [|reflexivity].
  apply file_eqb_spec in E. contradiction.
Qed.

Lemma files_eqb_spec a b : files_eqb a b = true <-> a = b.
Proof.
  revert b; induction a as [|x a IH]; intros [|y b]; cbn [files_eqb]; split; intros H;
    try reflexivity; try discriminate.
  - apply andb_true_iff in H as [H1 H2]. apply file_eqb_spec in H1. apply IH in H2. congruence.
  - inversion H; subst. rewrite file_eqb_refl. cbn. apply IH. reflexivity.
Qed.

(* ---------- file_position ---------- *)

Lemma offset_of_0 fs : offset_of fs 0 = 0.
Proof. reflexivity. Qed.

Lemma offset_of_S f fs k : offset_of (f :: fs) (S k) = fsize f + offset_of fs k.
Proof. unfold offset_of, total_size. cbn [firstn map sumZ]. reflexivity. Qed.

Theorem file_position_found fs : forall k f,
  NoDup fs -> nth_error fs k = Some f -> file_position fs f = Ok (offset_of fs k).
Proof.
  induction fs as [|g r IH]; intros k f Hnd Hk.
  - destruct k; discriminate.
  - cbn [file_position]. destruct k as [|k].
    + cbn in Hk. inversion Hk; subst. rewrite file_eqb_refl. reflexivity.
    + cbn in Hk. inversion Hnd as [|? ? Hnin Hnd']; subst.
      assert (g <> f) as Hne.
      { intros ->. apply Hnin. eapply nth_error_In; eauto. }
      rewrite (file_eqb_neq _ _ Hne).
      rewrite (IH k f Hnd' Hk). cbn [bind]. rewrite offset_of_S. reflexivity.
Qed.

Theorem file_position_missing fs f : ~ In f fs -> file_position fs f = Err DValue.
Proof.
  induction fs as [|g r IH]; intros Hnin; cbn [file_position]; [reflexivity|].
  rewrite file_eqb_neq by (intros ->; apply Hnin; left; reflexivity).
  rewrite IH by (intros H; apply Hnin; right; exact H). reflexivity.
Qed.

(* ---------- file_at_position ---------- *)

Lemma file_at_position_aux_spec fs : forall pos p,
  nonneg fs -> pos <= p ->
  (p < pos + total_size fs ->
     exists k f, nth_error fs k = Some f /\ file_at_position_aux fs pos p = Ok f /\
                 pos + offset_of fs k <= p < pos + offset_of fs k + fsize f) /\
  (pos + total_size fs <= p -> file_at_position_aux fs pos p = Err DValue).
Proof.
  induction fs as [|g r IH]; intros pos p Hnn Hle.
  - unfold total_size; cbn. split; [lia|reflexivity].
  - inversion Hnn as [|? ? Hg Hr]; subst.
    unfold total_size in *. cbn [map sumZ file_at_position_aux].
    unfold ex_fap_adv, ex_fap_hit, ex_fap_next.
    pose proof (total_size_nonneg r Hr) as Htr. unfold total_size in Htr.
    destruct (pos + (fsize g - 1) >=? p) eqn:E.
    + split.
      * intros _. exists 0%nat, g. rewrite offset_of_0. cbn [nth_error]. repeat split; lia.
      * intros H. lia.
    + specialize (IH (pos + (fsize g - 1) + 1) p Hr ltac:(lia)) as [IH1 IH2].
      split.
      * intros H. destruct IH1 as (k & f & Hk & Hf & Hrange); [lia|].
        exists (S k), f. rewrite offset_of_S. cbn [nth_error]. repeat split; try assumption; lia.
      * intros H. apply IH2. lia.
Qed.

Theorem file_at_position_in_range fs p :
  nonneg fs -> 0 <= p < total_size fs ->
  exists k f, nth_error fs k = Some f /\ file_at_position fs p = Ok f /\
              offset_of fs k <= p < offset_of fs k + fsize f.
Proof.
  intros Hnn [H0 H1]. unfold file_at_position, ex_fap_guard.
  replace (p >=? 0) with true by lia.
  destruct (file_at_position_aux_spec fs 0 p Hnn H0) as [Ha _].
  destruct Ha as (k & f & ? & ? & ?); [lia|]. exists k, f. repeat split; try assumption; lia.
Qed.

Theorem file_at_position_out_of_range fs p :
  nonneg fs -> p < 0 \/ total_size fs <= p -> file_at_position fs p = Err DValue.
Proof.
  intros Hnn H. unfold file_at_position, ex_fap_guard.
  destruct (p >=? 0) eqn:E; [|reflexivity].
  destruct (file_at_position_aux_spec fs 0 p Hnn ltac:(lia)) as [_ Hb]. apply Hb. lia.
Qed.

(* ---------- files_at_byte_range ---------- *)

(* exact characterisation of the loop test, zero-length files included *)
Lemma in_range_test_exact pos sz a b :
  0 <= sz -> a <= b ->
  in_range_test pos sz a b =
    overlaps pos sz a b || ((sz =? 0) && (a <=? pos) && (pos <=? b + 1)).
Proof.
  intros Hsz Hab. unfold in_range_test, overlaps, ex_fabr_test, ex_fabr_first, ex_fabr_last. lia.
Qed.

Lemma in_range_test_pos pos sz a b :
  0 < sz -> a <= b -> in_range_test pos sz a b = overlaps pos sz a b.
Proof.
  intros Hsz Hab. rewrite in_range_test_exact by lia.
  replace (sz =? 0) with false by lia. cbn. apply orb_false_r.
Qed.

Theorem files_at_byte_range_aux_spec fs : forall pos a b,
  allpos fs -> a <= b ->
  files_at_byte_range_aux fs pos a b = spec_files_in_range fs pos a b.
Proof.
  induction fs as [|f r IH]; intros pos a b Hp Hab; [reflexivity|].
  inversion Hp as [|? ? Hf Hr]; subst.
  cbn [files_at_byte_range_aux spec_files_in_range]. unfold ex_fabr_step.
  rewrite in_range_test_pos by assumption. rewrite IH by assumption. reflexivity.
Qed.

Theorem files_at_byte_range_spec fs a b :
  allpos fs -> a <= b ->
  files_at_byte_range fs a b = Ok (spec_files_in_range fs 0 a b).
Proof.
  intros Hp Hab. unfold files_at_byte_range, ex_fabr_assert.
  replace (a <=? b) with true by lia. rewrite files_at_byte_range_aux_spec by assumption.
  reflexivity.
Qed.

(* membership in the spec list: exactly the files that own a byte of [a,b] *)
Lemma spec_files_in_range_In fs : forall pos a b f,
  In f (spec_files_in_range fs pos a b) <->
  exists k, nth_error fs k = Some f /\
            overlaps (pos + offset_of fs k) (fsize f) a b = true.
Proof.
  induction fs as [|g r IH]; intros pos a b f; cbn [spec_files_in_range].
  - split; [intros []|]. intros (k & Hk & _). destruct k; discriminate.
  - rewrite in_app_iff, IH. split.
    + intros [H | (k & Hk & Ho)].
      * destruct (overlaps pos (fsize g) a b) eqn:E; [|destruct H].
        destruct H as [<-|[]]. exists 0%nat. rewrite offset_of_0, Z.add_0_r. split; [reflexivity|assumption].
      * exists (S k). rewrite offset_of_S. split; [exact Hk|].
        replace (pos + (fsize g + offset_of r k)) with (pos + fsize g + offset_of r k) by lia. exact Ho.
    + intros (k & Hk & Ho). destruct k as [|k].
      * cbn in Hk. inversion Hk; subst. left. rewrite offset_of_0, Z.add_0_r in Ho. rewrite Ho. left; reflexivity.
      * right. exists k. split; [exact Hk|]. rewrite offset_of_S in Ho.
        replace (pos + fsize g + offset_of r k) with (pos + (fsize g + offset_of r k)) by lia. exact Ho.
Qed.

(* a range inside one file's extent selects exactly that file *)
Lemma spec_files_in_range_nohit fs : forall pos a b,
  nonneg fs -> (b < pos \/ pos + total_size fs <= a) -> spec_files_in_range fs pos a b = [].
Proof.
  induction fs as [|g r IH]; intros pos a b Hnn H; [reflexivity|].
  inversion Hnn as [|? ? Hg Hr]; subst. cbn [spec_files_in_range].
  unfold total_size in *. cbn [map sumZ] in H.
  pose proof (total_size_nonneg r Hr) as Ht. unfold total_size in Ht.
  replace (overlaps pos (fsize g) a b) with false by (unfold overlaps; lia).
  cbn [app]. apply IH; [assumption|]. lia.
Qed.

Lemma spec_files_in_range_inside fs : forall pos k f a b,
  nonneg fs -> nth_error fs k = Some f -> a <= b ->
  pos + offset_of fs k <= a -> b < pos + offset_of fs k + fsize f ->
  spec_files_in_range fs pos a b = [f].
Proof.
  induction fs as [|g r IH]; intros pos k f a b Hnn Hk Hab Ha Hb.
  - destruct k; discriminate.
  - inversion Hnn as [|? ? Hg Hr]; subst. cbn [spec_files_in_range]. destruct k as [|k].
    + cbn in Hk; inversion Hk; subst. rewrite offset_of_0 in *.
      replace (overlaps pos (fsize f) a b) with true by (unfold overlaps; lia).
      rewrite spec_files_in_range_nohit; [reflexivity|assumption|]. left; lia.
    + cbn in Hk. rewrite offset_of_S in *.
      assert (0 <= offset_of r k) as Hoff.
      { unfold offset_of. apply total_size_nonneg. unfold nonneg in *.
        apply Forall_forall. intros x Hx. apply (proj1 (Forall_forall _ _) Hr).
        eapply In_firstn; eauto. }
      replace (overlaps pos (fsize g) a b) with false by (unfold overlaps; lia).
      cbn [app]. eapply IH; eauto; lia.
Qed.

(* ---------- max_piece_index ---------- *)

Theorem max_piece_index_spec fs L :
  0 < L -> max_piece_index fs L = Ok ((total_size fs - 1) / L).
Proof.
  intros HL. unfold max_piece_index, pyfloordiv, ex_mpi_num, ex_mpi_den.
  replace (L =? 0) with false by lia. reflexivity.
Qed.

Lemma max_piece_index_cdiv size L : 0 < L -> (size - 1) / L = cdiv size L - 1.
Proof. intros HL. unfold cdiv. nia. Qed.

(* ---------- files_at_piece_index ---------- *)

Lemma spec_nonempty_of_byte fs : forall pos p a b,
  allpos fs -> a <= p <= b -> pos <= p < pos + total_size fs ->
  spec_files_in_range fs pos a b <> [].
Proof.
  induction fs as [|g r IH]; intros pos p a b Hp Hab Hr0.
  - unfold total_size in Hr0; cbn in Hr0. lia.
  - inversion Hp as [|? ? Hg Hr]; subst. cbn [spec_files_in_range].
    unfold total_size in Hr0; cbn [map sumZ] in Hr0.
    destruct (Z_lt_dec p (pos + fsize g)) as [Hin|Hout].
    + replace (overlaps pos (fsize g) a b) with true by (unfold overlaps; lia). discriminate.
    + destruct (overlaps pos (fsize g) a b); [discriminate|]. cbn [app].
      apply (IH (pos + fsize g) p); [assumption|lia|]. unfold total_size. lia.
Qed.

Theorem files_at_piece_index_in_range fs L i :
  allpos fs -> 0 < L -> 0 <= i -> i * L < total_size fs ->
  files_at_piece_index fs L i = Ok (spec_files_in_range fs 0 (i * L) ((i + 1) * L - 1)) /\
  spec_files_in_range fs 0 (i * L) ((i + 1) * L - 1) <> [].
Proof.
  intros Hp HL Hi Hlt.
  assert (spec_files_in_range fs 0 (i * L) ((i + 1) * L - 1) <> []) as Hne.
  { apply (spec_nonempty_of_byte fs 0 (i * L)); [assumption|nia|nia]. }
  split; [|exact Hne].
  unfold files_at_piece_index, ex_fapi_guard, ex_fapi_start, ex_fapi_end.
  replace (i >=? 0) with true by lia.
  rewrite files_at_byte_range_spec by (try assumption; nia). cbn [bind].
  destruct (spec_files_in_range fs 0 (i * L) ((i + 1) * L - 1)); [contradiction|reflexivity].
Qed.

Theorem files_at_piece_index_out_of_range fs L i :
  allpos fs -> 0 < L -> i < 0 \/ total_size fs <= i * L ->
  files_at_piece_index fs L i = Err DValue.
Proof.
  intros Hp HL H. unfold files_at_piece_index, ex_fapi_guard, ex_fapi_start, ex_fapi_end.
  destruct (i >=? 0) eqn:E; [|reflexivity].
  rewrite files_at_byte_range_spec by (try assumption; nia). cbn [bind].
  rewrite spec_files_in_range_nohit; [reflexivity|apply allpos_nonneg; assumption|]. right. lia.
Qed.

(* ---------- byte_range_of_file ---------- *)

Theorem byte_range_of_file_spec fs k f :
  NoDup fs -> nth_error fs k = Some f ->
  byte_range_of_file fs f = Ok (offset_of fs k, offset_of fs k + fsize f - 1).
Proof.
  intros Hnd Hk. unfold byte_range_of_file, ex_brof_lo, ex_brof_hi.
  rewrite (file_position_found fs k f Hnd Hk). cbn [bind]. reflexivity.
Qed.

(* ---------- piece_indexes_of_file ---------- *)

Lemma zrange_In a b x : In x (zrange a b) <-> a <= x < b.
Proof.
  unfold zrange. rewrite in_map_iff. split.
  - intros (k & <- & Hk). apply in_seq in Hk. lia.
  - intros H. exists (Z.to_nat (x - a)). split; [lia|]. apply in_seq. lia.
Qed.

Theorem piece_indexes_inclusive_spec fs L k f :
  NoDup fs -> nth_error fs k = Some f -> 0 < L ->
  piece_indexes_of_file fs L f false =
    Ok (zrange (offset_of fs k / L) ((offset_of fs k + fsize f - 1) / L + 1)).
Proof.
  intros Hnd Hk HL. unfold piece_indexes_of_file.
  rewrite (file_position_found fs k f Hnd Hk). cbn [bind].
  unfold pyfloordiv, ex_piof_first_num, ex_piof_first_den, ex_piof_last_num, ex_piof_last_den,
    ex_piof_range_lo, ex_piof_range_hi.
  replace (L =? 0) with false by lia. cbn [bind]. reflexivity.
Qed.

(* piece i has a byte in common with a positive-length extent [off, off+sz) *)
Lemma piece_range_overlap off sz L i :
  0 < L -> 0 < sz -> 0 <= off ->
  (off / L <= i < (off + sz - 1) / L + 1) <->
  overlaps off sz (i * L) ((i + 1) * L - 1) = true.
Proof.
  intros HL Hsz Hoff. unfold overlaps. split; intros H.
  - assert (i * L <= off + sz - 1) by nia. assert (off < (i + 1) * L) by nia. lia.
  - assert (off <= (i + 1) * L - 1) by lia. assert (i * L < off + sz) by lia. nia.
Qed.

Lemma list_remove_In l x : forall l', list_remove l x = Ok l' ->
  NoDup l -> forall y, In y l' <-> In y l /\ y <> x.
Proof.
  induction l as [|z r IH]; intros l' H Hnd y; cbn [list_remove] in H; [discriminate|].
  inversion Hnd as [|? ? Hz Hr]; subst.
  destruct (z =? x) eqn:E.
  - inversion H; subst. apply Z.eqb_eq in E; subst. cbn [In]. split.
    + intros Hy. split; [right; exact Hy|]. intros ->. contradiction.
    + intros [[->|Hy] Hne]; [contradiction|exact Hy].
  - destruct (list_remove r x) as [r'|e] eqn:Er; cbn [bind] in H; [|discriminate].
    inversion H; subst. cbn [In]. rewrite (IH r' eq_refl Hr y).
    apply Z.eqb_neq in E. split.
    + intros [->|[Hy Hne]]; [split; [left; reflexivity|exact E]|split; [right; exact Hy|exact Hne]].
    + intros [[->|Hy] Hne]; [left; reflexivity|right; split; assumption].
Qed.

Lemma list_remove_ok l x : In x l -> exists l', list_remove l x = Ok l'.
Proof.
  induction l as [|z r IH]; intros H; [destruct H|]. cbn [list_remove].
  destruct (z =? x) eqn:E; [eexists; reflexivity|].
  destruct H as [->|H]; [rewrite Z.eqb_refl in E; discriminate|].
  destruct (IH H) as [r' ->]. cbn [bind]. eexists; reflexivity.
Qed.

Lemma list_remove_NoDup l x : forall l', list_remove l x = Ok l' -> NoDup l -> NoDup l'.
Proof.
  induction l as [|z r IH]; intros l' H Hnd; cbn [list_remove] in H; [discriminate|].
  inversion Hnd as [|? ? Hz Hr]; subst.
  destruct (z =? x) eqn:E; [inversion H; subst; assumption|].
  destruct (list_remove r x) as [r'|e] eqn:Er; cbn [bind] in H; [|discriminate].
  inversion H; subst. constructor; [|apply IH; auto].
  intros Hin. apply (list_remove_In r x r' Er Hr z) in Hin. tauto.
Qed.

Lemma zrange_NoDup a b : NoDup (zrange a b).
Proof.
  unfold zrange. apply Injective_map_NoDup; [|apply seq_NoDup].
  intros x y H. lia.
Qed.

Lemma zmem_In x l : zmem x l = true <-> In x l.
Proof.
  induction l as [|y r IH]; cbn [zmem In]; [split; [discriminate|tauto]|].
  rewrite orb_true_iff, IH, Z.eqb_eq. tauto.
Qed.

Lemma offset_of_nonneg fs k : nonneg fs -> 0 <= offset_of fs k.
Proof.
  intros H. unfold offset_of. apply total_size_nonneg. unfold nonneg in *.
  apply Forall_forall. intros x Hx. apply (proj1 (Forall_forall _ _) H). eapply In_firstn; eauto.
Qed.

Lemma offset_end_le_total fs : forall k f, nonneg fs -> nth_error fs k = Some f ->
  offset_of fs k + fsize f <= total_size fs.
Proof.
  induction fs as [|g r IH]; intros k f Hnn Hk; [destruct k; discriminate|].
  inversion Hnn as [|? ? Hg Hr]; subst. destruct k as [|k].
  - cbn in Hk. inversion Hk; subst. rewrite offset_of_0. unfold total_size; cbn [map sumZ].
    pose proof (total_size_nonneg r Hr) as Ht. unfold total_size in Ht. lia.
  - cbn in Hk. rewrite offset_of_S. specialize (IH k f Hr Hk). unfold total_size in *; cbn [map sumZ]. lia.
Qed.

(* The exclusive variant: i is kept iff it is in the inclusive list and the files
   with a byte in piece i are exactly [f]. *)
Theorem piece_indexes_exclusive_spec fs L k f :
  NoDup fs -> allpos fs -> nth_error fs k = Some f -> 0 < L ->
  exists l, piece_indexes_of_file fs L f true = Ok l /\
    forall i, In i l <->
      (offset_of fs k / L <= i < (offset_of fs k + fsize f - 1) / L + 1) /\
      spec_files_in_range fs 0 (i * L) ((i + 1) * L - 1) = [f].
Proof.
  intros Hnd Hp Hk HL.
  pose proof (allpos_nonneg fs Hp) as Hnn.
  assert (0 < fsize f) as Hsz.
  { apply (proj1 (Forall_forall _ _) Hp). eapply nth_error_In; eauto. }
  pose proof (offset_of_nonneg fs k Hnn) as Hoff.
  pose proof (offset_end_le_total fs k f Hnn Hk) as Hend.
  unfold piece_indexes_of_file.
  rewrite (file_position_found fs k f Hnd Hk). cbn [bind].
  unfold pyfloordiv, ex_piof_first_num, ex_piof_first_den, ex_piof_last_num, ex_piof_last_den,
    ex_piof_range_lo, ex_piof_range_hi.
  replace (L =? 0) with false by lia. cbn [bind].
  set (off := offset_of fs k) in *. set (sz := fsize f) in *.
  set (first := off / L). set (last := (off + sz - 1) / L).
  assert (0 <= first) as Hf0 by (unfold first; nia).
  assert (first <= last) as Hfl by (unfold first, last; nia).
  assert (first * L < total_size fs) as Hft by (unfold first; nia).
  assert (last * L < total_size fs) as Hlt by (unfold last; nia).
  destruct (files_at_piece_index_in_range fs L first Hp HL Hf0 Hft) as [-> _].
  cbn [bind].
  set (pis := zrange first (last + 1)).
  assert (NoDup pis) as Hpnd by apply zrange_NoDup.
  assert (forall i, In i pis <-> first <= i < last + 1) as HpIn by (intros i; apply zrange_In).
  (* middle pieces lie inside the file *)
  assert (forall i, first < i < last ->
            spec_files_in_range fs 0 (i * L) ((i + 1) * L - 1) = [f]) as Hmid.
  { intros i Hi. unfold first, last in Hi.
    apply (spec_files_in_range_inside fs 0 k f); try assumption; fold off sz; nia. }
  set (Ffirst := spec_files_in_range fs 0 (first * L) ((first + 1) * L - 1)).
  set (Flast := spec_files_in_range fs 0 (last * L) ((last + 1) * L - 1)).
  destruct (negb (files_eqb Ffirst [f])) eqn:E1.
  - (* first piece is shared: removed *)
    destruct (list_remove_ok pis first) as [pis1 Hrm]; [apply HpIn; lia|].
    rewrite Hrm. cbn [bind].
    destruct (files_at_piece_index_in_range fs L last Hp HL ltac:(lia) Hlt) as [-> _]. cbn [bind].
    fold Flast.
    pose proof (list_remove_In pis first pis1 Hrm Hpnd) as Hin1.
    pose proof (list_remove_NoDup pis first pis1 Hrm Hpnd) as Hnd1.
    assert (Ffirst <> [f]) as HFf.
    { intros Heq. apply negb_true_iff in E1. rewrite (proj2 (files_eqb_spec _ _) Heq) in E1. discriminate. }
    destruct (zmem last pis1 && negb (files_eqb Flast [f])) eqn:E2.
    + apply andb_true_iff in E2 as [E2a E2b]. apply zmem_In in E2a.
      destruct (list_remove_ok pis1 last E2a) as [pis2 Hrm2]. rewrite Hrm2.
      exists pis2. split; [reflexivity|]. intros i.
      rewrite (list_remove_In pis1 last pis2 Hrm2 Hnd1 i), Hin1, HpIn.
      assert (Flast <> [f]) as HFl.
      { intros Heq. apply negb_true_iff in E2b. rewrite (proj2 (files_eqb_spec _ _) Heq) in E2b. discriminate. }
      split.
      * intros [[Hr Hn1] Hn2]. split; [lia|]. apply Hmid. lia.
      * intros [Hr Hs]. assert (i <> first) by (intros ->; contradiction).
        assert (i <> last) by (intros ->; contradiction). repeat split; lia.
    + exists pis1. split; [reflexivity|]. intros i. rewrite Hin1, HpIn.
      apply andb_false_iff in E2. split.
      * intros [Hr Hn1]. split; [lia|].
        destruct (Z.eq_dec i last) as [->|Hnl]; [|apply Hmid; lia].
        destruct E2 as [E2|E2].
        -- exfalso. assert (zmem last pis1 = true) as Hc; [|congruence].
           apply zmem_In. apply Hin1. split; [apply HpIn; lia|lia].
        -- apply negb_false_iff in E2. apply files_eqb_spec in E2. exact E2.
      * intros [Hr Hs]. assert (i <> first) by (intros ->; contradiction). split; [lia|assumption].
  - (* first piece is exclusive: kept *)
    apply negb_false_iff in E1. apply files_eqb_spec in E1.
    destruct (files_at_piece_index_in_range fs L last Hp HL ltac:(lia) Hlt) as [-> _]. cbn [bind].
    fold Flast.
    destruct (zmem last pis && negb (files_eqb Flast [f])) eqn:E2.
    + apply andb_true_iff in E2 as [E2a E2b]. apply zmem_In in E2a.
      destruct (list_remove_ok pis last E2a) as [pis2 Hrm2]. rewrite Hrm2.
      exists pis2. split; [reflexivity|]. intros i.
      rewrite (list_remove_In pis last pis2 Hrm2 Hpnd i), HpIn.
      assert (Flast <> [f]) as HFl.
      { intros Heq. apply negb_true_iff in E2b. rewrite (proj2 (files_eqb_spec _ _) Heq) in E2b. discriminate. }
      split.
      * intros [Hr Hn2]. split; [lia|].
        destruct (Z.eq_dec i first) as [->|Hnf]; [exact E1|apply Hmid; lia].
      * intros [Hr Hs]. assert (i <> last) by (intros ->; contradiction). split; lia.
    + exists pis. split; [reflexivity|]. intros i. rewrite HpIn.
      apply andb_false_iff in E2. split.
      * intros Hr. split; [lia|].
        destruct (Z.eq_dec i first) as [->|Hnf]; [exact E1|].
        destruct (Z.eq_dec i last) as [->|Hnl]; [|apply Hmid; lia].
        destruct E2 as [E2|E2].
        -- exfalso. assert (zmem last pis = true) as Hc; [|congruence].
           apply zmem_In. apply HpIn. lia.
        -- apply negb_false_iff in E2. apply files_eqb_spec in E2. exact E2.
      * intros [Hr _]. lia.
Qed.

(* ---------- relative / absolute piece indexes ---------- *)

Lemma zinsert_In x l y : In y (zinsert x l) <-> y = x \/ In y l.
Proof.
  induction l as [|z r IH]; cbn [zinsert In].
  - split; intros H; intuition (subst; auto).
  - destruct (x <? z) eqn:E1; [cbn [In]; split; intros H; intuition (subst; auto)|].
    destruct (x =? z) eqn:E2.
    + apply Z.eqb_eq in E2; subst. cbn [In]. split; intros H; intuition (subst; auto).
    + cbn [In]. rewrite IH. split; intros H; intuition (subst; auto).
Qed.

Lemma sorted_set_In l y : In y (sorted_set l) <-> In y l.
Proof.
  induction l as [|x r IH]; cbn [sorted_set fold_right In]; [tauto|].
  rewrite zinsert_In. fold (sorted_set r). rewrite IH. intuition.
Qed.

Inductive ssorted : list Z -> Prop :=
| ss_nil : ssorted []
| ss_one x : ssorted [x]
| ss_cons x y r : x < y -> ssorted (y :: r) -> ssorted (x :: y :: r).

Lemma zinsert_sorted x l : ssorted l -> ssorted (zinsert x l).
Proof.
  induction 1 as [|z|z y r Hzy Hs IH]; cbn [zinsert].
  - constructor.
  - destruct (x <? z) eqn:E1; [constructor; [lia|constructor]|].
    destruct (x =? z) eqn:E2; [constructor|]. constructor; [lia|constructor].
  - destruct (x <? z) eqn:E1; [constructor; [lia|constructor; assumption]|].
    destruct (x =? z) eqn:E2; [constructor; assumption|].
    cbn [zinsert] in IH.
    destruct (x <? y) eqn:E3; [constructor; [lia|constructor; [lia|assumption]]|].
    destruct (x =? y) eqn:E4; [constructor; assumption|].
    constructor; [lia|exact IH].
Qed.

Lemma sorted_set_sorted l : ssorted (sorted_set l).
Proof.
  induction l as [|x r IH]; cbn [sorted_set fold_right]; [constructor|].
  apply zinsert_sorted. exact IH.
Qed.

Definition rel_index (mx r : Z) : Z :=
  clamp 0 mx (if r <? 0 then mx - Z.abs r + 1 else r).

Theorem relative_piece_indexes_spec L f rels :
  0 < L ->
  exists l, relative_piece_indexes L f rels = Ok l /\ ssorted l /\
    forall x, In x l <-> exists r, In r rels /\ x = rel_index ((fsize f - 1) / L) r.
Proof.
  intros HL. unfold relative_piece_indexes, pyfloordiv.
  replace (L =? 0) with false by lia. cbn [bind].
  eexists. split; [reflexivity|]. split; [apply sorted_set_sorted|].
  intros x. rewrite sorted_set_In, in_map_iff. unfold rel_index. split.
  - intros (r & <- & Hr). exists r. split; [assumption|reflexivity].
  - intros (r & Hr & ->). exists r. split; [reflexivity|assumption].
Qed.

Lemma rel_index_bounds mx r : 0 <= mx -> 0 <= rel_index mx r <= mx.
Proof. intros H. unfold rel_index, clamp. lia. Qed.

Lemma zrange_cons a b : a < b -> zrange a b = a :: zrange (a + 1) b.
Proof.
  intros H. unfold zrange.
  replace (Z.to_nat (b - a)) with (S (Z.to_nat (b - (a + 1)))) by lia.
  cbn [seq map]. f_equal; [lia|].
  rewrite <- seq_shift, map_map. apply map_ext. intros k. lia.
Qed.

Lemma zrange_last a b d : a < b -> last (zrange a b) d = b - 1.
Proof.
  intros H. unfold zrange.
  replace (Z.to_nat (b - a)) with (S (Z.to_nat (b - a - 1))) by lia.
  rewrite seq_S, map_app. cbn [map]. rewrite last_last. lia.
Qed.

Theorem absolute_piece_indexes_spec fs L k f rels :
  NoDup fs -> nonneg fs -> nth_error fs k = Some f -> 0 < fsize f -> 0 < L ->
  let amin := offset_of fs k / L in
  let amax := (offset_of fs k + fsize f - 1) / L in
  exists l, absolute_piece_indexes fs L f rels = Ok l /\ ssorted l /\
    forall x, In x l <-> exists r, In r rels /\ x = amin + rel_index (amax - amin) r.
Proof.
  intros Hnd Hnn Hk Hsz HL amin amax.
  pose proof (offset_of_nonneg fs k Hnn) as Hoff.
  unfold absolute_piece_indexes.
  rewrite (piece_indexes_inclusive_spec fs L k f Hnd Hk HL). cbn [bind].
  fold amin amax.
  assert (amin <= amax) as Hle by (unfold amin, amax; nia).
  rewrite zrange_cons by lia.
  rewrite <- zrange_cons by lia. rewrite zrange_last by lia.
  eexists. split; [reflexivity|]. split; [apply sorted_set_sorted|].
  intros x. rewrite sorted_set_In, in_map_iff. unfold rel_index.
  replace (amax + 1 - 1 - amin) with (amax - amin) by lia. split.
  - intros (r & <- & Hr). exists r. split; [assumption|reflexivity].
  - intros (r & Hr & ->). exists r. split; [reflexivity|assumption].
Qed.

(* ---------- zero-length files: what the code does (witnesses) ---------- *)

(* a zero-length file is listed among the files of a byte range ... *)
Lemma zero_length_listed :
  files_at_byte_range [(1, 0); (2, 4)] 0 3 = Ok [(1, 0); (2, 4)].
Proof. vm_compute. reflexivity. Qed.

(* ... and is given a piece index when it does not sit on a piece boundary *)
Lemma zero_length_has_piece :
  piece_indexes_of_file [(1, 2); (2, 0); (3, 4)] 4 (2, 0) false = Ok [0].
Proof. vm_compute. reflexivity. Qed.

Lemma zero_length_out_of_range_accepted :
  files_at_piece_index [(1, 8); (2, 0)] 8 1 = Ok [(2, 0)].
Proof. vm_compute. reflexivity. Qed.

Lemma zero_length_spoils_exclusive :
  piece_indexes_of_file [(1, 8); (2, 0)] 8 (1, 8) true = Ok [].
Proof. vm_compute. reflexivity. Qed.

Lemma zero_length_exclusive_raises :
  piece_indexes_of_file [(1, 0); (2, 5); (3, 0)] 4 (1, 0) true = Err IValue.
Proof. vm_compute. reflexivity. Qed.
