(* DrainProofs.v -- C03/C04, unbounded: when the collector has taken the end marker of the hash queue in the
   normal course of a run (no exception), nothing is left anywhere in the pipeline: the piece queue holds no
   piece, no hasher holds one, the hash queue is empty.  With the conservation theorem: every piece the reader
   handed over has been collected; with the reader theorem: if the run was never told to stop, that is every
   piece of the content. *)
From Coq Require Import Lia ZifyBool Permutation.
From Torf Require Import Base Pipeline PipelineProofs FlowProofs ThreadProofs DeadlockProofs ConservationProofs ReaderDoneProofs.
Open Scope Z_scope.

(* ---- a hasher has met the end-of-stream token ---- *)
Definition is_tok (h : tstate * hpc) : bool := match snd h with HRequeue | HSet => true | _ => false end.
Definition tok (hs : list (tstate * hpc)) : bool := existsb is_tok hs.

Lemma tok_set_nth_false l : forall i x, is_tok x = false -> tok (set_nth l i x) = true -> tok l = true.
Proof.
  induction l as [|y l IH]; intros [|i] x Hx H; cbn [set_nth tok existsb] in *; try discriminate H.
  - rewrite Hx in H. cbn in H. rewrite H. apply orb_true_r.
  - apply orb_true_iff in H as [H|H]; [rewrite H; reflexivity|]. unfold tok in IH. rewrite (IH i x Hx H). apply orb_true_r.
Qed.

Lemma tok_nth l : forall i h, nth_error l i = Some h -> is_tok h = true -> tok l = true.
Proof.
  induction l as [|y l IH]; intros [|i] h Hn Hh; cbn in *; try discriminate.
  - injection Hn as ->. rewrite Hh. reflexivity.
  - unfold tok in IH. rewrite (IH i h Hn Hh). apply orb_true_r.
Qed.

Definition met (s : state) : Prop := s_final s = true \/ tok (s_hs s) = true.

(* once a hasher has met the token, the piece queue holds no piece any more and the reader has ended *)
Definition P1 (s : state) : Prop := met s -> qn (s_pq s) = 0%nat /\ s_rst s = TDone.

Lemma P1_keep s s' : s_pq s' = s_pq s -> s_rst s' = s_rst s -> (met s' -> met s) -> P1 s -> P1 s'.
Proof. unfold P1. intros -> -> H A Hm. apply A. apply H. exact Hm. Qed.

Lemma pieces_then_closed (l : list qitem) r : Forall (fun q => is_piece q = true) l -> QClosed :: r = l ++ [QClosed] -> r = [].
Proof.
  intros Hl E. destruct l as [|y l]; cbn in E; [injection E as <-; reflexivity|].
  injection E as <- _. inversion Hl as [|? ? Hy _]. discriminate Hy.
Qed.

Lemma step_hasher_P1 c s i a : DInv c s -> P1 s -> P1 (step_hasher s i a).
Proof.
  intros Hd Hinv. unfold step_hasher. destruct (nth_error (s_hs s) i) as [[st pc]|] eqn:En; [|exact Hinv].
  destruct st; try exact Hinv.
  assert (Hback : forall x s', s_final s' = s_final s -> s_hs s' = set_nth (s_hs s) i x -> is_tok x = false -> met s' -> met s).
  { intros x s' Ef Eh Hx [H|H]; [left; rewrite <- Ef; exact H|right]. rewrite Eh in H. exact (tok_set_nth_false _ _ _ Hx H). }
  destruct pc as [|it| | |].
  - destruct a.
    + destruct (s_pq s) as [|[|idx h exc] r] eqn:Epq; [exact Hinv| |].
      * (* the token is taken from the queue *)
        intros _. unfold upd_hasher. cbn [set_hs set_pq s_pq s_rst].
        destruct (s_rst s) eqn:Er.
        -- destruct (d_before c s Hd ltac:(rewrite Er; discriminate)) as [Hp _]. rewrite Epq in Hp. inversion Hp as [|? ? Hq _]. discriminate Hq.
        -- destruct (d_before c s Hd ltac:(rewrite Er; discriminate)) as [Hp _]. rewrite Epq in Hp. inversion Hp as [|? ? Hq _]. discriminate Hq.
        -- destruct (d_after c s Hd Er) as [(l & El & Hl & _)|[E0 _]]; [|rewrite Epq in E0; discriminate E0].
           rewrite Epq in El. rewrite (pieces_then_closed l r Hl El). split; reflexivity.
      * intros Hm. exfalso.
        assert (met s) as Hm0 by (revert Hm; eapply Hback; reflexivity).
        destruct (Hinv Hm0) as [Hq _]. rewrite Epq in Hq. discriminate Hq.
    + destruct (Nat.eqb i 0); [apply (P1_keep s); try reflexivity; [|exact Hinv]; intros H; exact H|].
      apply (P1_keep s); try reflexivity; [|exact Hinv]. eapply (Hback (TDone, HExit)); reflexivity.
  - apply (P1_keep s); try reflexivity; [|exact Hinv]. eapply (Hback (TRunning, HGet)); reflexivity.
  - (* the token is put back *)
    intros _. destruct (Hinv (or_intror (tok_nth _ _ _ En eq_refl))) as [Hq Hr].
    unfold upd_hasher. cbn [set_hs set_pq s_pq s_rst]. rewrite qn_app, Hq. split; [reflexivity|exact Hr].
  - intros _. destruct (Hinv (or_intror (tok_nth _ _ _ En eq_refl))) as [Hq Hr].
    unfold upd_hasher. cbn [set_hs set_final s_pq s_rst]. split; assumption.
  - exact Hinv.
Qed.

(* ---- what the steps leave alone ---- *)
Lemma step_reader_keep s :
  let s' := step_reader s in
  s_final s' = s_final s /\ s_hs s' = s_hs s /\ s_hq s' = s_hq s /\ s_jst s' = s_jst s /\ s_jpc s' = s_jpc s /\
  s_mpc s' = s_mpc s /\ s_result s' = s_result s.
Proof. cbv zeta. unfold step_reader, reader_next. break_match; cbn; repeat split; reflexivity. Qed.

Lemma step_janitor_keep s a :
  let s' := step_janitor s a in
  s_pq s' = s_pq s /\ s_rst s' = s_rst s /\ s_final s' = s_final s /\ s_hs s' = s_hs s /\ s_mpc s' = s_mpc s /\ s_result s' = s_result s.
Proof. cbv zeta. unfold step_janitor. break_match; cbn; repeat split; reflexivity. Qed.

Lemma step_hasher_keep s i a :
  let s' := step_hasher s i a in
  s_rst s' = s_rst s /\ s_jst s' = s_jst s /\ s_jpc s' = s_jpc s /\ s_mpc s' = s_mpc s /\ s_result s' = s_result s /\
  (s_final s = true -> s_final s' = true).
Proof. cbv zeta. unfold step_hasher. break_match; cbn; repeat split; auto. Qed.

Lemma collect_item_final c s idx h exc : s_final (collect_item c s idx h exc) = s_final s.
Proof.
  unfold collect_item. destruct (_ || _); [|reflexivity].
  destruct (cf_verify c); destruct exc; destruct (has_user_cb c); try destruct (mismatch c idx h); try destruct (user_cb c _) as [[|]|]; reflexivity.
Qed.

Lemma collect_item_jan c s idx h exc : s_jst (collect_item c s idx h exc) = s_jst s /\ s_jpc (collect_item c s idx h exc) = s_jpc s.
Proof.
  unfold collect_item. destruct (_ || _); [|split; reflexivity].
  destruct (cf_verify c); destruct exc; destruct (has_user_cb c); try destruct (mismatch c idx h); try destruct (user_cb c _) as [[|]|]; split; reflexivity.
Qed.

(* the collector's next step after handling an item is never part of a normal shutdown *)
Lemma collect_item_mpc c s idx h exc :
  s_mpc (collect_item c s idx h exc) = MGet \/
  s_mpc (collect_item c s idx h exc) = MStopRead AContinue \/
  exists e, s_mpc (collect_item c s idx h exc) = MStopRead (AFinal (ORaise e)).
Proof.
  unfold collect_item. destruct (_ || _); [|left; reflexivity].
  destruct (cf_verify c); destruct exc; destruct (has_user_cb c); try destruct (mismatch c idx h); try destruct (user_cb c _) as [[|]|]; cbn;
    try (left; reflexivity); try (right; left; reflexivity); right; right; eexists; reflexivity.
Qed.

(* a step of main other than the start of a thread *)
Lemma step_main_keep c s inc : (forall t, s_mpc s <> MStart t) ->
  let s' := step_main c s inc in
  s_pq s' = s_pq s /\ s_rst s' = s_rst s /\ s_final s' = s_final s /\ s_hs s' = s_hs s /\ s_jst s' = s_jst s /\ s_jpc s' = s_jpc s.
Proof.
  intros Hns. cbv zeta. unfold step_main. destruct (s_mpc s) eqn:Empc; try (exfalso; exact (Hns _ eq_refl));
    try (break_match; cbn; repeat split; reflexivity).
  - destruct (collect_item_fview c (set_now s (s_now s + inc)) idx h exc) as [E _]. injection E as _ _ E3 _ E5 E6 _ _ _.
    destruct (collect_item_jan c (set_now s (s_now s + inc)) idx h exc) as [J1 J2].
    rewrite E3, E5, E6, J1, J2, collect_item_final. repeat split; reflexivity.
  - unfold finish. break_match; cbn; repeat split; reflexivity.
  - unfold finish. break_match; cbn; repeat split; reflexivity.
Qed.

Lemma start_thread_keep s t :
  let s' := start_thread s t in
  s_pq s' = s_pq s /\ s_final s' = s_final s /\ s_hq s' = s_hq s /\ s_mpc s' = s_mpc s /\ s_result s' = s_result s.
Proof. cbv zeta. unfold start_thread, reader_next, upd_hasher. break_match; cbn; repeat split; reflexivity. Qed.

(* ---- P1 for the other threads ---- *)
Lemma step_reader_P1 s : s_rst s = TRunning -> P1 s -> P1 (step_reader s).
Proof.
  intros Hrun Hinv Hm. exfalso. destruct (step_reader_keep s) as (Ef & Eh & _).
  assert (met s) as Hm0 by (destruct Hm as [H|H]; [left; rewrite <- Ef; exact H|right; rewrite <- Eh; exact H]).
  destruct (Hinv Hm0) as [_ Hr]. rewrite Hr in Hrun. discriminate.
Qed.

Lemma step_janitor_P1 s a : P1 s -> P1 (step_janitor s a).
Proof.
  intros Hinv. destruct (step_janitor_keep s a) as (E1 & E2 & E3 & E4 & _).
  apply (P1_keep s); try assumption. unfold met. rewrite E3, E4. auto.
Qed.

Lemma step_main_P1 c s inc : FInv c s -> P1 s -> P1 (step_main c s inc).
Proof.
  intros Hf Hinv. destruct (s_mpc s) eqn:Empc;
    try (destruct (step_main_keep c s inc ltac:(intros t0 E; rewrite Empc in E; discriminate E)) as (E1 & E2 & E3 & E4 & _);
         apply (P1_keep s); try assumption; unfold met; rewrite E3, E4; auto).
  unfold step_main. rewrite Empc. destruct (refused c t).
  - destruct ((t =? 1) || (t =? 2) || (t =? 3)); [apply (P1_keep s); try reflexivity; auto|].
    destruct (next_to_start c t); apply (P1_keep s); try reflexivity; auto.
  - assert (Hs : P1 (start_thread s t)).
    { unfold start_thread. destruct (t =? 1) eqn:E1.
      - assert (t = 1) as -> by lia. destruct (fi_start c s Hf 1 (or_intror Empc)) as [_ Hnew].
        pose proof (reader_next_fields (upd_reader s TRunning RStopRead (s_rtodo s) 0 None) (s_rtodo s) 0) as Hn. cbv zeta in Hn.
        destruct Hn as (_ & _ & _ & F4 & _).
        intros Hm. exfalso. assert (met s) as Hm0.
        { destruct Hm as [H|H]; [left; destruct (start_thread_keep s 1) as (_ & Ef & _); unfold start_thread in Ef; cbn [Z.eqb] in Ef; rewrite <- Ef; exact H|right; rewrite F4 in H; exact H]. }
        destruct (Hinv Hm0) as [_ Hr]. rewrite (Hnew eq_refl) in Hr. discriminate.
      - destruct (t =? 2); [apply (P1_keep s); try reflexivity; auto|].
        apply (P1_keep s); try reflexivity; [|exact Hinv].
        intros [H|H]; [left; exact H|right]. unfold upd_hasher in H. cbn [set_hs s_hs] in H. exact (tok_set_nth_false (s_hs s) (hasher_index t) (TRunning, HGet) eq_refl H). }
    destruct (next_to_start c t); apply (P1_keep (start_thread s t)); try reflexivity; auto.
Qed.

(* ---- the janitor passes its wait only after a hasher has set the finalize event ---- *)
Definition jpast (s : state) : Prop :=
  (s_jst s = TRunning /\ (s_jpc s = JPutClosed \/ exists l, s_jpc s = JWaitAlive l)) \/ s_jst s = TDone.
Definition P2 (s : state) : Prop := jpast s -> s_final s = true.

Lemma P2_keep s s' : s_jst s' = s_jst s -> s_jpc s' = s_jpc s -> (s_final s = true -> s_final s' = true) -> P2 s -> P2 s'.
Proof. unfold P2, jpast. intros -> -> H A Hj. apply H. apply A. exact Hj. Qed.

Lemma step_janitor_P2 s a : s_jst s = TRunning -> In a (janitor_enabled s) -> P2 s -> P2 (step_janitor s a).
Proof.
  intros Hrun Hin Hinv. unfold janitor_enabled in Hin. rewrite Hrun in Hin. unfold step_janitor.
  destruct (s_jpc s) as [|l|l| |] eqn:Ej.
  - destruct (s_final s) eqn:Ef.
    + destruct Hin as [<-|[]]. destruct (s_tracked s); intros _; cbn; exact Ef.
    + destruct Hin as [<-|[]]. destruct (s_tracked s); intros [[_ [E|[l' E]]]|E]; cbn in E; discriminate E.
  - pose proof (Hinv (or_introl (conj Hrun (or_intror (ex_intro _ l Ej))))) as Ef.
    destruct l as [|t r]; [intros _; cbn; exact Ef|]. destruct (is_alive s t); [|destruct r]; intros _; cbn; exact Ef.
  - destruct l as [|t r]; [|destruct r]; intros [[_ [E|[l' E]]]|E]; cbn in E; discriminate E.
  - pose proof (Hinv (or_introl (conj Hrun (or_introl Ej)))) as Ef. intros _. cbn. exact Ef.
  - exact Hinv.
Qed.

(* ---- what a hasher holds is a piece ---- *)
Definition Hp (s : state) : Prop := Forall (fun h => forall it, snd h = HPutHash it -> is_piece it = true) (s_hs s).

Lemma Forall_set_nth {X} (P : X -> Prop) l : forall i x, Forall P l -> P x -> Forall P (set_nth l i x).
Proof.
  induction l as [|y l IH]; intros [|i] x H Hx; cbn [set_nth]; try constructor; inversion H; subst; auto.
Qed.

Lemma step_hasher_Hp s i a : Hp s -> Hp (step_hasher s i a).
Proof.
  intros H. unfold step_hasher. destruct (nth_error (s_hs s) i) as [[st pc]|]; [|exact H]. destruct st; try exact H.
  destruct pc as [|it| | |]; try exact H.
  - destruct a.
    + destruct (s_pq s) as [|[|idx h exc] r]; [exact H| |]; unfold Hp, upd_hasher; cbn [set_hs set_pq s_hs]; apply Forall_set_nth; try exact H.
      * intros it E. discriminate E.
      * intros it E. cbn [snd] in E. injection E as <-. destruct exc; reflexivity.
    + destruct (Nat.eqb i 0); [exact H|]. unfold Hp, upd_hasher. cbn [set_hs set_now s_hs]. apply Forall_set_nth; [exact H|]. intros it E. discriminate E.
  - unfold Hp, upd_hasher. cbn [set_hs set_hq s_hs]. apply Forall_set_nth; [exact H|]. intros it' E. discriminate E.
  - unfold Hp, upd_hasher. cbn [set_hs set_pq s_hs]. apply Forall_set_nth; [exact H|]. intros it' E. discriminate E.
  - unfold Hp, upd_hasher. cbn [set_hs set_final s_hs]. apply Forall_set_nth; [exact H|]. intros it' E. discriminate E.
Qed.

(* ---- when the janitor has ended, no hasher runs ---- *)
Lemma no_hasher_after_janitor c s t pc :
  TInv c s -> s_jst s = TDone -> 3 <= t -> nth_error (s_hs s) (hasher_index t) = Some (TRunning, pc) -> False.
Proof.
  intros T Hj Ht En.
  assert (Hh : is_hasher c t).
  { unfold is_hasher. split; [exact Ht|]. assert (hasher_index t < length (s_hs s))%nat by (apply nth_error_Some; rewrite En; discriminate).
    rewrite (t_len c s T) in H. unfold hasher_index in H. lia. }
  assert (Ha : is_alive s t = false).
  { destruct (in_dec Z.eq_dec t (s_tracked s)) as [Hin|Hnin]; [apply (t_jclosed c s T (or_intror Hj) t Hin)|apply (t_untracked c s T t Hh Hnin)]. }
  unfold is_alive, tstate_of in Ha. replace (t =? 1) with false in Ha by lia. replace (t =? 2) with false in Ha by lia.
  rewrite En in Ha. discriminate Ha.
Qed.

Lemma step_hasher_id s i a : (forall pc, nth_error (s_hs s) i <> Some (TRunning, pc)) -> step_hasher s i a = s.
Proof.
  intros H. unfold step_hasher. destruct (nth_error (s_hs s) i) as [[st pc]|] eqn:En; [|reflexivity].
  destruct st; try reflexivity. exfalso. exact (H pc eq_refl).
Qed.

(* ---- the hash queue: pieces, then (once the janitor has ended) the end marker, nothing after it ---- *)
Definition allp (l : list qitem) : Prop := Forall (fun q => is_piece q = true) l.
Definition Hq (s : state) : Prop :=
  (s_jst s <> TDone -> allp (s_hq s)) /\
  (s_jst s = TDone -> s_hq s = [] \/ exists l, s_hq s = l ++ [QClosed] /\ allp l).

Lemma Hq_keep s s' : s_jst s' = s_jst s -> s_hq s' = s_hq s -> Hq s -> Hq s'.
Proof. unfold Hq. intros -> ->. auto. Qed.

Lemma step_hasher_Hq c s t a : TInv c s -> 3 <= t -> Hp s -> Hq s -> Hq (step_hasher s (hasher_index t) a).
Proof.
  intros T Ht Hpp [A B]. unfold step_hasher. destruct (nth_error (s_hs s) (hasher_index t)) as [[st pc]|] eqn:En; [|split; assumption].
  destruct st; try (split; assumption).
  destruct pc as [|it| | |]; try (break_match; apply (Hq_keep s); try reflexivity; split; assumption).
  assert (Hnd : s_jst s <> TDone) by (intros Hj; exact (no_hasher_after_janitor c s t _ T Hj Ht En)).
  unfold Hp in Hpp. rewrite Forall_forall in Hpp. pose proof (Hpp _ (nth_error_In _ _ En) it eq_refl) as Hit.
  split; unfold upd_hasher; cbn [set_hs set_hq s_jst s_hq]; [|intros Hj; contradiction].
  intros _. apply Forall_app. split; [exact (A Hnd)|constructor; [exact Hit|constructor]].
Qed.

Lemma step_janitor_Hq s a : s_jst s = TRunning -> Hq s -> Hq (step_janitor s a).
Proof.
  intros Hrun [A B]. assert (Hall : allp (s_hq s)) by (apply A; rewrite Hrun; discriminate).
  assert (Hk : forall s', s_jst s' = TRunning -> s_hq s' = s_hq s -> Hq s').
  { intros s' E1 E2. split; rewrite E1, ?E2; [intros _; exact Hall|intros E; discriminate E]. }
  unfold step_janitor. destruct (s_jpc s) as [|l|l| |].
  - destruct a; destruct (s_tracked s); apply Hk; reflexivity.
  - destruct l as [|t r]; [apply Hk; reflexivity|]. destruct (is_alive s t); [|destruct r]; apply Hk; reflexivity.
  - destruct l as [|t r]; [|destruct r]; apply Hk; reflexivity.
  - split; cbn; [intros E; exfalso; apply E; reflexivity|]. intros _. right. exists (s_hq s). split; [reflexivity|exact Hall].
  - split; assumption.
Qed.

(* ---- main in the normal shutdown ---- *)
Definition verdict (r : result) : Prop := r = ResTrue \/ r = ResFalse.

Definition normal_tail (pc : mpc) : Prop :=
  match pc with
  | MRJoinAlive ONormal | MRJoin ONormal | MHJoinAlive ONormal _ _ | MHJoin ONormal _ _ | MJJoinAlive ONormal | MJJoin ONormal => True
  | _ => False
  end.

Definition no_normal_final (pc : mpc) : Prop :=
  match pc with MStopRead (AFinal ONormal) | MStopWrite (AFinal ONormal) => False | _ => True end.

Definition quiet (s : state) : Prop := s_hq s = [] /\ s_jst s = TDone.

Definition M (s : state) : Prop :=
  no_normal_final (s_mpc s) /\
  (normal_tail (s_mpc s) -> quiet s) /\
  (s_mpc s = MDone -> forall r, s_result s = Some r -> verdict r -> quiet s).

Lemma M_keep s s' : s_mpc s' = s_mpc s -> s_result s' = s_result s -> s_hq s' = s_hq s -> s_jst s' = s_jst s -> M s -> M s'.
Proof. unfold M, quiet. intros -> -> -> ->. auto. Qed.

Lemma normal_next_hasher s o pos : normal_tail (next_hasher s o pos) -> o = ONormal.
Proof. unfold next_hasher. destruct (nth_error (s_tracked s) pos); destruct o; cbn; intros H; try reflexivity; contradiction. Qed.

Lemma raise_of_normal o x : raise_of o x = ONormal -> o = ONormal.
Proof. unfold raise_of. destruct x; [discriminate|auto]. Qed.

Lemma M_trivial s pc : no_normal_final pc -> ~ normal_tail pc -> pc <> MDone -> M (set_mpc s pc).
Proof. intros A B C. split; [exact A|]. split; cbn [set_mpc s_mpc]; [intros H; contradiction|intros H; contradiction]. Qed.

Lemma M_to s pc : no_normal_final pc -> pc <> MDone -> (normal_tail pc -> quiet s) -> M (set_mpc s pc).
Proof.
  intros A B C. split; [exact A|]. split; cbn [set_mpc s_mpc]; [|intros H; contradiction].
  intros H. destruct (C H) as [Q1 Q2]. split; cbn; assumption.
Qed.

Lemma next_hasher_shape s o pos : (exists t, next_hasher s o pos = MHJoinAlive o pos t) \/ next_hasher s o pos = MJJoinAlive o.
Proof. unfold next_hasher. destruct (nth_error (s_tracked s) pos); [left; eexists; reflexivity|right; reflexivity]. Qed.

Lemma M_next_hasher s o pos : (o = ONormal -> quiet s) -> M (set_mpc s (next_hasher s o pos)).
Proof.
  intros H. apply M_to.
  - destruct (next_hasher_shape s o pos) as [[t ->]| ->]; exact I.
  - destruct (next_hasher_shape s o pos) as [[t ->]| ->]; discriminate.
  - intros Hn. apply H. exact (normal_next_hasher s o pos Hn).
Qed.

Lemma M_finish c s o : (o = ONormal -> quiet s) -> M (finish c s o).
Proof.
  intros H. unfold finish. destruct o as [|e].
  - split; [exact I|]. split; cbn [finish_main s_mpc s_result]; [intros F; contradiction|].
    intros _ r _ _. destruct (H eq_refl) as [Q1 Q2]. split; cbn; assumption.
  - split; [exact I|]. split; cbn [finish_main s_mpc s_result]; [intros F; contradiction|].
    intros _ r E [V|V]; rewrite V in E; discriminate E.
Qed.

Lemma step_main_HqM c s inc : TInv c s -> Hq s -> M s -> Hq (step_main c s inc) /\ M (step_main c s inc).
Proof.
  intros T HQ HM. pose proof HM as (M0 & M1 & M2). unfold step_main. destruct (s_mpc s) eqn:Empc.
  - split; [apply (Hq_keep s); try reflexivity; exact HQ|apply M_to; [exact I|discriminate|intros F; contradiction]].
  - (* a thread is started *)
    destruct (t_start c s T t (or_intror Empc)) as (Hjn & _).
    destruct (refused c t).
    + destruct ((t =? 1) || (t =? 2) || (t =? 3)).
      * split; [apply (Hq_keep s); try reflexivity; exact HQ|].
        split; [exact I|]. split; cbn [finish_main s_mpc s_result]; [intros F; contradiction|].
        intros _ r E [V|V]; rewrite V in E; discriminate E.
      * destruct (next_to_start c t); (split; [apply (Hq_keep s); try reflexivity; exact HQ|apply M_to; [exact I|discriminate|intros F; contradiction]]).
    + assert (HQs : forall pc, Hq (set_mpc (start_thread s t) pc)).
      { intros pc. destruct (start_thread_keep s t) as (_ & _ & Ehq & _). destruct HQ as [A _].
        assert (Hnd : s_jst (start_thread s t) <> TDone).
        { unfold start_thread, reader_next, upd_hasher. break_match; cbn; rewrite ?Hjn; discriminate. }
        split; cbn [set_mpc s_jst s_hq]; [|intros E; contradiction]. intros _. rewrite Ehq. apply A. rewrite Hjn. discriminate. }
      destruct (next_to_start c t); (split; [apply HQs|apply M_to; [exact I|discriminate|intros F; contradiction]]).
  - (* hash_queue.get() *)
    destruct (s_hq s) as [|[|idx h exc] r] eqn:Ehq; [split; [exact HQ|exact HM]| |].
    + assert (Hr : r = [] /\ s_jst s = TDone).
      { destruct HQ as [A B]. destruct (s_jst s) eqn:Ej.
        - pose proof (A ltac:(discriminate)) as Hall. rewrite Ehq in Hall. inversion Hall as [|? ? Hx _]. discriminate Hx.
        - pose proof (A ltac:(discriminate)) as Hall. rewrite Ehq in Hall. inversion Hall as [|? ? Hx _]. discriminate Hx.
        - destruct (B eq_refl) as [E|(l & E & Hl)]; [rewrite Ehq in E; discriminate E|]. rewrite Ehq in E. split; [exact (pieces_then_closed l r Hl E)|reflexivity]. }
      destruct Hr as [-> Hj]. split.
      * split; cbn [set_mpc set_hq s_jst s_hq]; [intros F; contradiction|intros _; left; reflexivity].
      * split; [exact I|]. split; cbn [set_mpc set_hq s_mpc s_hq s_jst s_result]; [intros _; split; [reflexivity|exact Hj]|intros F; discriminate F].
    + assert (HQr : forall s', s_jst s' = s_jst s -> s_hq s' = r -> Hq s').
      { intros s' E1 E2. destruct HQ as [A B]. split; rewrite E1, E2.
        - intros Hn. pose proof (A Hn) as Hall. rewrite Ehq in Hall. inversion Hall; assumption.
        - intros Hj. destruct (B Hj) as [E|(l & E & Hl)]; [rewrite Ehq in E; discriminate E|]. rewrite Ehq in E.
          destruct l as [|y l]; cbn in E; [discriminate E|]. injection E as <- ->. right. exists l. split; [reflexivity|inversion Hl; assumption]. }
      cbn [set_hq s_seen]. destruct (existsb (Z.eqb idx) (s_seen s)).
      * split; [apply HQr; reflexivity|apply M_to; [exact I|discriminate|intros F; contradiction]].
      * split; [apply HQr; reflexivity|apply M_to; [exact I|discriminate|intros F; contradiction]].
  - (* the collector handles the item *)
    destruct (collect_item_fview c (set_now s (s_now s + inc)) idx h exc) as [E _]. injection E as _ _ _ _ _ _ E7 _ _.
    destruct (collect_item_jan c (set_now s (s_now s + inc)) idx h exc) as [J1 _].
    split; [apply (Hq_keep s); [exact J1|exact E7|exact HQ]|].
    destruct (collect_item_mpc c (set_now s (s_now s + inc)) idx h exc) as [Em|[Em|[e Em]]];
      (split; [rewrite Em; exact I|split; rewrite Em; [intros F; contradiction|intros F; discriminate F]]).
  - destruct (s_stop s).
    + destruct a as [|o].
      * split; [apply (Hq_keep s); try reflexivity; exact HQ|apply M_to; [exact I|discriminate|intros F; contradiction]].
      * split; [apply (Hq_keep s); try reflexivity; exact HQ|]. destruct o; [contradiction|]. apply M_to; [exact I|discriminate|intros F; contradiction].
    + split; [apply (Hq_keep s); try reflexivity; exact HQ|apply M_to; [exact M0|discriminate|intros F; contradiction]].
  - destruct a as [|o].
    + split; [apply (Hq_keep s); try reflexivity; exact HQ|apply M_to; [exact I|discriminate|intros F; contradiction]].
    + split; [apply (Hq_keep s); try reflexivity; exact HQ|]. destruct o; [contradiction|]. apply M_to; [exact I|discriminate|intros F; contradiction].
  - destruct (is_alive s 1).
    + split; [apply (Hq_keep s); try reflexivity; exact HQ|apply M_to; [exact I|discriminate|]]. intros F. apply M1. exact F.
    + split; [apply (Hq_keep s); try reflexivity; exact HQ|apply M_next_hasher]. intros E. apply raise_of_normal in E. subst o. apply M1. exact I.
  - split; [apply (Hq_keep s); try reflexivity; exact HQ|apply M_next_hasher]. intros E. apply raise_of_normal in E. subst o. apply M1. exact I.
  - destruct (is_alive s t).
    + split; [apply (Hq_keep s); try reflexivity; exact HQ|apply M_to; [exact I|discriminate|]]. intros F. apply M1. exact F.
    + split; [apply (Hq_keep s); try reflexivity; exact HQ|apply M_next_hasher]. intros ->. apply M1. exact I.
  - split; [apply (Hq_keep s); try reflexivity; exact HQ|apply M_next_hasher]. intros ->. apply M1. exact I.
  - destruct (is_alive s 2).
    + split; [apply (Hq_keep s); try reflexivity; exact HQ|apply M_to; [exact I|discriminate|]]. intros F. apply M1. exact F.
    + split; [unfold finish; destruct o; apply (Hq_keep s); try reflexivity; exact HQ|apply M_finish]. intros ->. apply M1. exact I.
  - split; [unfold finish; destruct o; apply (Hq_keep s); try reflexivity; exact HQ|apply M_finish]. intros ->. apply M1. exact I.
  - split; [exact HQ|exact HM].
Qed.

Lemma step_main_P2 c s inc : P2 s -> P2 (step_main c s inc).
Proof.
  intros Hinv. destruct (s_mpc s) eqn:Empc;
    try (destruct (step_main_keep c s inc ltac:(intros t0 E; rewrite Empc in E; discriminate E)) as (_ & _ & E3 & _ & E5 & E6);
         apply (P2_keep s); try assumption; rewrite E3; auto).
  unfold step_main. rewrite Empc. destruct (refused c t).
  - destruct ((t =? 1) || (t =? 2) || (t =? 3)); [apply (P2_keep s); try reflexivity; auto|].
    destruct (next_to_start c t); apply (P2_keep s); try reflexivity; auto.
  - assert (Hs : P2 (start_thread s t)).
    { unfold start_thread. destruct (t =? 1).
      - apply (P2_keep s); [unfold reader_next; break_match; reflexivity..| |exact Hinv]. unfold reader_next; break_match; cbn; auto.
      - destruct (t =? 2).
        + intros [[_ [E|[l E]]]|E]; cbn in E; discriminate E.
        + apply (P2_keep s); try reflexivity; auto. }
    destruct (next_to_start c t); apply (P2_keep (start_thread s t)); try reflexivity; auto.
Qed.

Lemma step_main_Hp c s inc : Hp s -> Hp (step_main c s inc).
Proof.
  intros Hinv. destruct (s_mpc s) eqn:Empc;
    try (destruct (step_main_keep c s inc ltac:(intros t0 E; rewrite Empc in E; discriminate E)) as (_ & _ & _ & E4 & _);
         unfold Hp; rewrite E4; exact Hinv).
  unfold step_main. rewrite Empc. destruct (refused c t).
  - destruct ((t =? 1) || (t =? 2) || (t =? 3)); [exact Hinv|]. destruct (next_to_start c t); exact Hinv.
  - assert (Hs : Hp (start_thread s t)).
    { unfold start_thread. destruct (t =? 1).
      - unfold Hp. pose proof (reader_next_fields (upd_reader s TRunning RStopRead (s_rtodo s) 0 None) (s_rtodo s) 0) as Hn. cbv zeta in Hn.
        destruct Hn as (_ & _ & _ & F4 & _). rewrite F4. exact Hinv.
      - destruct (t =? 2); [exact Hinv|]. unfold Hp, upd_hasher. cbn [set_hs s_hs]. apply Forall_set_nth; [exact Hinv|]. intros it E. discriminate E. }
    destruct (next_to_start c t); exact Hs.
Qed.

(* ---- all together ---- *)
Record GInv (s : state) : Prop := { g_p1 : P1 s; g_p2 : P2 s; g_hp : Hp s; g_hq : Hq s; g_m : M s }.

Lemma GInv_init c : GInv (init c).
Proof.
  constructor.
  - intros [H|H]; cbn in H; [discriminate H|]. exfalso. revert H. unfold tok. induction (seq 0 (cf_hashers c)); cbn; [discriminate|assumption].
  - intros [[E _]|E]; cbn in E; discriminate E.
  - unfold Hp. cbn. induction (seq 0 (cf_hashers c)); cbn; constructor; [intros it E; discriminate E|assumption].
  - split; cbn; [intros _; constructor|intros E; discriminate E].
  - split; [exact I|]. split; cbn; [intros F; contradiction|intros F; discriminate F].
Qed.

Lemma GInv_set_now s x : GInv s -> GInv (set_now s x).
Proof.
  intros [A B C D E]. constructor.
  - apply (P1_keep s); try reflexivity; auto.
  - apply (P2_keep s); try reflexivity; auto.
  - exact C.
  - apply (Hq_keep s); try reflexivity; exact D.
  - apply (M_keep s); try reflexivity; exact E.
Qed.

Lemma GInv_reader s : s_rst s = TRunning -> GInv s -> GInv (step_reader s).
Proof.
  intros Hrun [A B C D E]. destruct (step_reader_keep s) as (Ef & Eh & Ehq & Ej & Ejp & Em & Er). constructor.
  - apply step_reader_P1; assumption.
  - apply (P2_keep s); try assumption. rewrite Ef. auto.
  - unfold Hp. rewrite Eh. exact C.
  - apply (Hq_keep s); assumption.
  - apply (M_keep s); assumption.
Qed.

Theorem drain_invariant c s : (1 <= cf_hashers c)%nat -> reach c s -> GInv s.
Proof.
  intros Hn. induction 1 as [|s t a inc Hr IH Hen Hinc]; [apply GInv_init|].
  pose proof (flow_invariant c s Hr) as Hf. pose proof (thread_invariant c s Hn Hr) as T. pose proof (deadlock_invariant c s Hn Hr) as Hd.
  destruct IH as [A B C D E].
  unfold step. destruct (enabled_tid c s t a Hen) as [[-> Hin]|[[-> Hin]|[[-> Hin]|Ht]]].
  - cbn [Z.eqb Pos.eqb]. destruct (step_main_HqM c s inc T D E) as [D' E']. constructor;
      [apply step_main_P1; assumption|apply step_main_P2; assumption|apply step_main_Hp; assumption|exact D'|exact E'].
  - cbn [Z.eqb Pos.eqb]. assert (s_rst s = TRunning) as Hrun.
    { unfold reader_enabled in Hin. destruct (s_rst s); [destruct Hin|reflexivity|destruct Hin]. }
    destruct (s_rpc s); apply GInv_reader; try exact Hrun; try (apply GInv_set_now); constructor; assumption.
  - cbn [Z.eqb Pos.eqb]. assert (s_jst s = TRunning) as Hrun.
    { unfold janitor_enabled in Hin. destruct (s_jst s); [destruct Hin|reflexivity|destruct Hin]. }
    destruct (step_janitor_keep s a) as (E1 & E2 & E3 & E4 & E5 & E6). constructor.
    + apply step_janitor_P1; assumption.
    + apply step_janitor_P2; assumption.
    + unfold Hp. rewrite E4. exact C.
    + apply step_janitor_Hq; assumption.
    + destruct E as (M0 & M1 & M2). split; [rewrite E5; exact M0|]. split.
      * rewrite E5. intros F. destruct (M1 F) as [_ Q]. rewrite Q in Hrun. discriminate Hrun.
      * rewrite E5, E6. intros F r Er V. destruct (M2 F r Er V) as [_ Q]. rewrite Q in Hrun. discriminate Hrun.
  - replace (t =? 0) with false by lia. replace (t =? 1) with false by lia. replace (t =? 2) with false by lia.
    destruct (step_hasher_keep s (hasher_index t) a) as (E1 & E2 & E3 & E4 & E5 & E6). constructor.
    + apply (step_hasher_P1 c); assumption.
    + apply (P2_keep s); assumption.
    + apply step_hasher_Hp; assumption.
    + apply (step_hasher_Hq c); assumption.
    + destruct (nth_error (s_hs s) (hasher_index t)) as [[st pc]|] eqn:En.
      * destruct st; try (rewrite step_hasher_id; [exact E|intros pc' F; rewrite En in F; discriminate F]).
        destruct E as (M0 & M1 & M2). split; [rewrite E4; exact M0|]. split.
        -- rewrite E4. intros F. exfalso. destruct (M1 F) as [_ Q]. exact (no_hasher_after_janitor c s t pc T Q Ht En).
        -- rewrite E4, E5. intros F r Er V. exfalso. destruct (M2 F r Er V) as [_ Q]. exact (no_hasher_after_janitor c s t pc T Q Ht En).
      * rewrite step_hasher_id; [exact E|intros pc' F; rewrite En in F; discriminate F].
Qed.

(* ---- the theorems ---- *)
Lemma hn_zero hs : idle_ok hs -> Forall (fun h => fst h <> TRunning) hs -> hn hs = 0%nat.
Proof.
  intros Hi Hd. induction hs as [|h r IH]; [reflexivity|]. inversion Hi as [|? ? Hh Hr]; inversion Hd as [|? ? Dh Dr]; subst.
  cbn [hn]. rewrite (IH Hr Dr). unfold hw. rewrite (Hh Dh). reflexivity.
Qed.

Lemma qn_zero_nil l : qn l = 0%nat -> flat_map qidx l = [].
Proof. unfold qn. intros H. destruct (flat_map qidx l); [reflexivity|discriminate H]. Qed.

(* A call that returns a verdict (True or False -- no exception) has collected every piece the reader handed
   over: nothing is left in the piece queue, with a hasher or in the hash queue. *)
Theorem verdict_means_drained c s r :
  (1 <= cf_hashers c)%nat -> reach c s -> s_result s = Some r -> verdict r ->
  s_rst s = TDone /\ indices s = s_seen s /\ Permutation (s_seen s) (map Z.of_nat (seq 0 (Z.to_nat (s_ridx s)))).
Proof.
  intros Hn Hr Hres Hv.
  pose proof (thread_invariant c s Hn Hr) as T. destruct (drain_invariant c s Hn Hr) as [A B _ _ (_ & _ & M2)].
  destruct (conservation_invariant c s Hn Hr) as [_ Hidle].
  assert (Hmd : s_mpc s = MDone) by (apply (t_done c s T); apply (t_result c s T); rewrite Hres; discriminate).
  destruct (M2 Hmd r Hres Hv) as [Ehq Ej].
  pose proof (B (or_intror Ej)) as Ef. destruct (A (or_introl Ef)) as [Epq Erst].
  assert (Hdead : Forall (fun h => fst h <> TRunning) (s_hs s)).
  { apply Forall_forall. intros [st pc] Hin Est. cbn [fst] in Est. subst st.
    apply In_nth_error in Hin as [i Hi].
    apply (no_hasher_after_janitor c s (hasher_tid i) pc T Ej); [unfold hasher_tid; lia|].
    unfold hasher_index, hasher_tid. replace (Z.to_nat (3 + Z.of_nat i - 3)) with i by lia. exact Hi. }
  pose proof (hn_zero _ Hidle Hdead) as Ehn.
  assert (Eidx : indices s = s_seen s).
  { unfold indices, flight. rewrite Ehq, app_nil_r, flat_map_app. rewrite (qn_zero_nil _ Epq).
    rewrite <- hn_flat in Ehn. rewrite (qn_zero_nil _ Ehn). reflexivity. }
  split; [exact Erst|]. split; [exact Eidx|]. rewrite <- Eidx. apply (no_piece_lost c s Hn Hr).
Qed.

(* ... and if the run was never told to stop and the reader met no error, that is every piece of the content *)
Theorem uncancelled_run_collects_everything c s r :
  (1 <= cf_hashers c)%nat -> reach c s -> s_result s = Some r -> verdict r -> s_stop s = false -> s_rexc s = None ->
  Permutation (s_seen s) (map Z.of_nat (seq 0 (Z.to_nat (nitems c)))).
Proof.
  intros Hn Hr Hres Hv Hs He. destruct (verdict_means_drained c s r Hn Hr Hres Hv) as (Erst & _ & Hp).
  rewrite <- (reader_done_means_everything_read c s Hr Erst He Hs). exact Hp.
Qed.
