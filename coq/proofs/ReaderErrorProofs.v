(* ReaderErrorProofs.v -- C04, unbounded: a read failure surfaces as the read error.  If the reader thread ended with an
   error (the content iterator raised, or the out-of-memory handler gave up) and the call has returned -- other than by
   the RuntimeError of a refused reader / janitor / first hasher -- then the call raised exactly that error.  Under
   every schedule, hasher count, callback plan and clock. *)
From Coq Require Import Lia ZifyBool.
From Torf Require Import Base Pipeline PipelineProofs FlowProofs ThreadProofs DrainProofs ReaderDoneProofs CompleteProofs.
Open Scope Z_scope.

Definition Zr (s : state) : Prop :=
  forall e, s_rexc s = Some e ->
    (forall o, post_join (s_mpc s) = Some o -> o = ORaise e) /\
    (s_mpc s = MDone -> ~ refused_fatal s -> s_result s = Some (ResRaise e)).

Lemma Zr_keep s s' : s_rexc s' = s_rexc s -> s_mpc s' = s_mpc s -> s_result s' = s_result s -> Zr s -> Zr s'.
Proof. unfold Zr, refused_fatal. intros -> -> ->. auto. Qed.

Lemma Zr_to s pc : pc <> MDone -> (forall e o, s_rexc s = Some e -> post_join pc = Some o -> o = ORaise e) -> Zr (set_mpc s pc).
Proof. intros A B e He. split; cbn [set_mpc s_mpc]; [intros o Ho; exact (B e o He Ho)|intros F; contradiction]. Qed.

Lemma Zr_finish c s o : (forall e, s_rexc s = Some e -> o = ORaise e) -> Zr (finish c s o).
Proof.
  intros H e He. unfold finish. destruct o as [|e0]; cbn [finish_main s_rexc] in He; pose proof (H e He) as E; [discriminate E|].
  injection E as ->. split; cbn [finish_main s_mpc s_result]; [intros o Ho; discriminate Ho|intros _ _; reflexivity].
Qed.

Lemma step_main_Zr c s inc : Zr s -> Zr (step_main c s inc).
Proof.
  intros HZ. unfold step_main. destruct (s_mpc s) eqn:Empc;
    try (apply Zr_to; [discriminate|intros e o _ F; discriminate F]).
  - destruct (refused c t).
    + destruct ((t =? 1) || (t =? 2) || (t =? 3)).
      * intros e He. split; cbn [finish_main s_mpc s_result]; [intros o F; discriminate F|]. intros _ Hnf. exfalso. apply Hnf. reflexivity.
      * destruct (next_to_start c t); apply Zr_to; try discriminate; intros e o _ F; discriminate F.
    + destruct (next_to_start c t); apply Zr_to; try discriminate; intros e o _ F; discriminate F.
  - destruct (s_hq s) as [|[|idx h exc] r]; [exact HZ|apply Zr_to; [discriminate|intros e o _ F; discriminate F]|].
    cbn [set_hq s_seen]. destruct (existsb _ _); apply Zr_to; try discriminate; intros e o _ F; discriminate F.
  - intros e He. rewrite collect_item_rexc in He.
    destruct (collect_item_mpc c (set_now s (s_now s + inc)) idx h exc) as [Em|[Em|[e' Em]]]; rewrite Em; (split; [intros o F; discriminate F|intros F; discriminate F]).
  - destruct (s_stop s); [destruct a|]; apply Zr_to; try discriminate; intros e o _ F; discriminate F.
  - destruct a; apply Zr_to; try discriminate; intros e o _ F; discriminate F.
  - destruct (is_alive s 1); [apply Zr_to; [discriminate|intros e o0 _ F; discriminate F]|].
    apply Zr_to; [apply next_hasher_not_done|]. intros e o0 He. rewrite post_join_next_hasher. intros E. injection E as <-. unfold raise_of. rewrite He. reflexivity.
  - apply Zr_to; [apply next_hasher_not_done|]. intros e o0 He. rewrite post_join_next_hasher. intros E. injection E as <-. unfold raise_of. rewrite He. reflexivity.
  - destruct (is_alive s t).
    + apply Zr_to; [discriminate|]. intros e o0 He. cbn. intros E. injection E as <-. destruct (HZ e He) as [A _]. apply A. rewrite Empc. reflexivity.
    + apply Zr_to; [apply next_hasher_not_done|]. intros e o0 He. rewrite post_join_next_hasher. intros E. injection E as <-. destruct (HZ e He) as [A _]. apply A. rewrite Empc. reflexivity.
  - apply Zr_to; [apply next_hasher_not_done|]. intros e o0 He. rewrite post_join_next_hasher. intros E. injection E as <-. destruct (HZ e He) as [A _]. apply A. rewrite Empc. reflexivity.
  - destruct (is_alive s 2).
    + apply Zr_to; [discriminate|]. intros e o0 He. cbn. intros E. injection E as <-. destruct (HZ e He) as [A _]. apply A. rewrite Empc. reflexivity.
    + apply Zr_finish. intros e He. destruct (HZ e He) as [A _]. apply A. rewrite Empc. reflexivity.
  - apply Zr_finish. intros e He. destruct (HZ e He) as [A _]. apply A. rewrite Empc. reflexivity.
  - exact HZ.
Qed.

Theorem reader_error_invariant c s : (1 <= cf_hashers c)%nat -> reach c s -> Zr s.
Proof.
  intros Hn. induction 1 as [|s t a inc Hr IH Hen Hinc]; [intros e He; discriminate He|].
  pose proof (thread_invariant c s Hn Hr) as T.
  unfold step. destruct (enabled_tid c s t a Hen) as [[-> Hin]|[[-> Hin]|[[-> Hin]|Ht]]].
  - cbn [Z.eqb Pos.eqb]. apply step_main_Zr. exact IH.
  - cbn [Z.eqb Pos.eqb]. assert (s_rst s = TRunning) as Hrun.
    { unfold reader_enabled in Hin. destruct (s_rst s); [destruct Hin|reflexivity|destruct Hin]. }
    assert (Halive : is_alive s 1 = true) by (unfold is_alive, tstate_of; cbn; rewrite Hrun; reflexivity).
    (* while the reader runs main has not passed its join, so whatever the reader stores is still to be picked up *)
    assert (Hg : forall s0, s_mpc s0 = s_mpc s -> s_result s0 = s_result s -> Zr (step_reader s0)).
    { intros s0 E1 E2 e _. destruct (step_reader_mr s0) as [A B]. rewrite A, B, E1. unfold refused_fatal. rewrite B, E2. split.
      - intros o F. exfalso. assert (joining (s_mpc s) = true) as J by (destruct (s_mpc s); cbn in F; try discriminate F; reflexivity).
        rewrite (t_rjoined c s T (or_introl J)) in Halive. discriminate Halive.
      - intros F Hnf. exfalso. rewrite (t_rjoined c s T (or_intror (conj F Hnf))) in Halive. discriminate Halive. }
    destruct (s_rpc s); apply Hg; reflexivity.
  - cbn [Z.eqb Pos.eqb]. destruct (step_janitor_rd s a) as (_ & _ & A3 & _). destruct (step_janitor_keep s a) as (_ & _ & _ & _ & E5 & E6).
    apply (Zr_keep s); assumption.
  - replace (t =? 0) with false by lia. replace (t =? 1) with false by lia. replace (t =? 2) with false by lia.
    destruct (step_hasher_rd s (hasher_index t) a) as (_ & _ & A3 & _). destruct (step_hasher_keep s (hasher_index t) a) as (_ & _ & _ & E4 & E5 & _).
    apply (Zr_keep s); assumption.
Qed.

(* If the reader thread ended with an error and the call has returned normally (not by the RuntimeError of a refused
   vital thread), the call raised exactly that error. *)
Theorem reader_error_reaches_caller c s r e :
  (1 <= cf_hashers c)%nat -> reach c s -> s_result s = Some r -> r <> ResRuntimeError 1 -> s_rexc s = Some e -> r = ResRaise e.
Proof.
  intros Hn Hr Hres Hnf He. pose proof (thread_invariant c s Hn Hr) as T.
  assert (Hmd : s_mpc s = MDone) by (apply (t_done c s T); apply (t_result c s T); rewrite Hres; discriminate).
  destruct (reader_error_invariant c s Hn Hr e He) as [_ B].
  assert (E : s_result s = Some (ResRaise e)) by (apply B; [exact Hmd|unfold refused_fatal; rewrite Hres; intros C; injection C as C; exact (Hnf C)]).
  rewrite Hres in E. injection E as ->. reflexivity.
Qed.
