(* VerifyTrueProofs.v -- C02, unbounded: a verification run that returns True has found every
   piece of the content to carry the recorded hash -- for every schedule, every number of hashers
   and pieces, with or without a callback, any clock.  (So content in which some piece hashes
   differently is never verified successfully.) *)
From Coq Require Import Lia ZifyBool Permutation.
From Torf Require Import Base Pipeline PipelineProofs Tree OrderProofs FlowProofs.
Open Scope Z_scope.

Definition VInv (c : config) (s : state) : Prop :=
  (s_result s <> None -> s_mpc s = MDone) /\
  (s_result s = Some ResTrue -> forall expd, cf_verify c = Some expd -> sorted_hashes (s_hashes s) = expd).

Lemma VInv_of_rview c s s' : rview s' = rview s -> VInv c s -> VInv c s'.
Proof. unfold rview, VInv. intros E H. injection E as E1 E2 E3. rewrite E1, E2, E3. exact H. Qed.

Lemma list_eqb_eq : forall a b : list Z,
  (fix eqb (a b : list Z) : bool :=
     match a, b with
     | [], [] => true
     | x :: a', y :: b' => (x =? y) && eqb a' b'
     | _, _ => false end) a b = true -> a = b.
Proof.
  induction a as [|x a IH]; intros [|y b] H; try discriminate H; [reflexivity|].
  apply andb_true_iff in H as [H1 H2]. f_equal; [lia|apply IH; exact H2].
Qed.

Lemma step_main_VInv c s inc : VInv c s -> VInv c (step_main c s inc).
Proof.
  intros Hinv0. pose proof Hinv0 as [H1 H2].
  assert (Hnone : s_mpc s <> MDone -> s_result s = None).
  { intros Hm. destruct (s_result s) eqn:E; [|reflexivity]. exfalso. apply Hm. apply H1. discriminate. }
  assert (Hkeep : forall s' , s_result s' = s_result s -> s_mpc s' <> MDone -> s_mpc s <> MDone -> VInv c s').
  { intros s' Er Hm Hm0. split; rewrite Er, (Hnone Hm0); [intros C; exfalso; apply C; reflexivity|discriminate]. }
  assert (Hfin : forall r, (r = ResTrue -> forall expd, cf_verify c = Some expd -> sorted_hashes (s_hashes s) = expd) -> VInv c (finish_main s r)).
  { intros r Hr. split; cbn [finish_main s_result s_mpc s_hashes]; [reflexivity|]. intros E. injection E as ->. apply Hr. reflexivity. }
  assert (Hfinish : forall o, VInv c (finish c s o)).
  { intros o. unfold finish. destruct o; apply Hfin; [|discriminate]. unfold conclude. intros E expd Hv. rewrite Hv in E.
    match type of E with (if ?b then _ else _) = _ => destruct b eqn:Eb; [|discriminate E] end.
    apply list_eqb_eq. exact Eb. }
  unfold step_main. destruct (s_mpc s) eqn:Empc; try (apply Hkeep; [reflexivity|cbn; discriminate|discriminate]).
  - destruct (refused c t).
    + destruct ((t =? 1) || (t =? 2) || (t =? 3)); [apply Hfin; discriminate|].
      destruct (next_to_start c t); apply Hkeep; try reflexivity; cbn; try discriminate; discriminate.
    + pose proof (start_thread_rview s t) as Ev. unfold rview in Ev. injection Ev as E1 E2 E3.
      destruct (next_to_start c t); apply Hkeep; cbn [set_mpc s_result s_mpc]; try exact E1; try discriminate; discriminate.
  - destruct (s_hq s) as [|[|idx h exc] r]; [exact Hinv0| |].
    + apply Hkeep; [reflexivity|cbn; discriminate|discriminate].
    + destruct (existsb _ _); apply Hkeep; try reflexivity; cbn; try discriminate; discriminate.
  - destruct (collect_item_result c (set_now s (s_now s + inc)) idx h exc) as (E1 & E2 & E3).
    apply Hkeep; [exact E1|exact E3|discriminate].
  - destruct (s_stop s); [destruct a|]; apply Hkeep; try reflexivity; cbn; try discriminate; discriminate.
  - destruct a; apply Hkeep; try reflexivity; cbn; try discriminate; discriminate.
  - destruct (is_alive s 1); apply Hkeep; try reflexivity; try (discriminate); cbn; try discriminate.
    unfold next_hasher. destruct (nth_error _ _); discriminate.
  - apply Hkeep; try reflexivity; try (discriminate). cbn. unfold next_hasher. destruct (nth_error _ _); discriminate.
  - destruct (is_alive s t); apply Hkeep; try reflexivity; try (discriminate); cbn; try discriminate.
    unfold next_hasher. destruct (nth_error _ _); discriminate.
  - apply Hkeep; try reflexivity; try (discriminate). cbn. unfold next_hasher. destruct (nth_error _ _); discriminate.
  - destruct (is_alive s 2); [apply Hkeep; [reflexivity|cbn; discriminate|discriminate]|apply Hfinish].
  - apply Hfinish.
  - exact Hinv0.
Qed.

Theorem verify_result_invariant c s : reach c s -> VInv c s.
Proof.
  induction 1 as [|s t a inc Hr IH Hen Hinc]; [split; cbn; [intros C; exfalso; apply C; reflexivity|discriminate]|].
  unfold step. destruct (t =? 0); [apply step_main_VInv; exact IH|].
  destruct (t =? 1).
  - destruct (s_rpc s); try (apply (VInv_of_rview c s); [apply step_reader_rview|exact IH]).
    apply (VInv_of_rview c s); [rewrite step_reader_rview; reflexivity|exact IH].
  - destruct (t =? 2); apply (VInv_of_rview c s); try exact IH; [apply step_janitor_rview|apply step_hasher_rview].
Qed.

(* If every piece of the content is readable (the reader yields the pieces with hashes [hs], as many as the
   torrent records) and verification returns True, then the content's hashes ARE the recorded ones. *)
Theorem verify_true_means_intact c s expd hs :
  reach c s -> cf_verify c = Some expd -> yielded (cf_items c) = map RPiece hs -> zlen hs = zlen expd ->
  s_result s = Some ResTrue -> hs = expd.
Proof.
  intros Hr Hv HY Hlen Hres. pose proof (flow_invariant c s Hr) as Hf.
  destruct (verify_result_invariant c s Hr) as [_ Hsorted]. specialize (Hsorted Hres expd Hv).
  rewrite <- Hsorted. symmetry. apply hashes_are_reference.
  - exact (fi_hnodup c s Hf).
  - rewrite <- Hsorted in Hlen. rewrite sorted_hashes_isort in Hlen. unfold zlen in *. rewrite map_length in Hlen.
    rewrite (Permutation_length (isort_perm (fun p : Z * Z => p) pair_ltb (s_hashes s))) in Hlen. lia.
  - intros i h Hin. pose proof (fi_hashes c s Hf) as Hh. rewrite Forall_forall in Hh. destruct (Hh (i, h) Hin) as [Hseen Hn]. cbn [fst snd] in *.
    assert (Hi : 0 <= i).
    { pose proof (fi_bound c s Hf) as Hb. rewrite Forall_forall in Hb. apply (Hb i). unfold indices. apply in_or_app. right. exact Hseen. }
    split; [exact Hi|]. rewrite HY in Hn. rewrite nth_error_map in Hn. destruct (nth_error hs (Z.to_nat i)); [injection Hn as ->; reflexivity|discriminate].
Qed.
