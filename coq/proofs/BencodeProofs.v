(* BencodeProofs.v -- facts about the bencoder (C06) and the typed outcomes of
   the decoder (C08). *)
From Coq Require Import Lia ZifyBool.
From Torf Require Import Base Sexp Bencode.
Open Scope Z_scope.

(* ---- byte-string order ---- *)
Lemma bytes_ltb_irrefl a : bytes_ltb a a = false.
Proof.
  induction a as [|x a IH]; cbn [bytes_ltb]; [reflexivity|].
  rewrite N.ltb_irrefl. exact IH.
Qed.

Lemma bytes_ltb_trans a : forall b c, bytes_ltb a b = true -> bytes_ltb b c = true -> bytes_ltb a c = true.
Proof.
  induction a as [|x a IH]; intros [|y b] [|z c] H1 H2; cbn [bytes_ltb] in *; try discriminate; try reflexivity.
  destruct (x <? y)%N eqn:Exy.
  - destruct (y <? z)%N eqn:Eyz; [replace (x <? z)%N with true by lia; reflexivity|].
    destruct (z <? y)%N eqn:Ezy; [discriminate|].
    assert (y = z) by lia. subst. rewrite Exy. reflexivity.
  - destruct (y <? x)%N eqn:Eyx; [discriminate|]. assert (x = y) by lia. subst.
    destruct (y <? z)%N eqn:Eyz; [reflexivity|].
    destruct (z <? y)%N eqn:Ezy; [discriminate|]. eapply IH; eauto.
Qed.

Lemma bytes_ltb_total a : forall b, bytes_ltb a b = false -> bytes_ltb b a = false -> a = b.
Proof.
  induction a as [|x a IH]; intros [|y b] H1 H2; cbn [bytes_ltb] in *; try discriminate; try reflexivity.
  destruct (x <? y)%N eqn:Exy; [discriminate|].
  destruct (y <? x)%N eqn:Eyx; [discriminate|].
  assert (x = y) by lia. subst. f_equal. apply IH; assumption.
Qed.

(* ---- insertion sort on keys ---- *)
Inductive ksorted {V} : list (bytes * V) -> Prop :=
| ks_nil : ksorted []
| ks_one kv : ksorted [kv]
| ks_cons k1 v1 k2 v2 r : bytes_ltb k2 k1 = false -> ksorted ((k2, v2) :: r) -> ksorted ((k1, v1) :: (k2, v2) :: r).

Lemma insert_kv_sorted {V} k (v : V) l : ksorted l -> ksorted (insert_kv k v l).
Proof.
  induction 1 as [|[k1 v1]|k1 v1 k2 v2 r H12 Hs IH]; cbn [insert_kv].
  - constructor.
  - destruct (bytes_ltb k k1) eqn:E.
    + constructor; [|constructor]. destruct (bytes_ltb k1 k) eqn:E2; [|reflexivity].
      pose proof (bytes_ltb_trans _ _ _ E E2) as C. rewrite bytes_ltb_irrefl in C. discriminate.
    + constructor; [exact E|constructor].
  - destruct (bytes_ltb k k1) eqn:E.
    + constructor; [|constructor; assumption]. destruct (bytes_ltb k1 k) eqn:E2; [|reflexivity].
      pose proof (bytes_ltb_trans _ _ _ E E2) as C. rewrite bytes_ltb_irrefl in C. discriminate.
    + cbn [insert_kv] in IH. destruct (bytes_ltb k k2) eqn:E2.
      * constructor; [exact E|]. constructor; [|assumption].
        destruct (bytes_ltb k2 k) eqn:E3; [|reflexivity].
        pose proof (bytes_ltb_trans _ _ _ E2 E3) as C. rewrite bytes_ltb_irrefl in C. discriminate.
      * constructor; [exact H12|exact IH].
Qed.

Lemma sort_kvs_sorted {V} (l : list (bytes * V)) : ksorted (sort_kvs l).
Proof.
  induction l as [|[k v] r IH]; cbn [sort_kvs fold_right]; [constructor|].
  apply insert_kv_sorted. exact IH.
Qed.

Lemma insert_kv_In {V} k (v : V) l x : In x (insert_kv k v l) <-> x = (k, v) \/ In x l.
Proof.
  induction l as [|[k1 v1] r IH]; cbn [insert_kv In].
  - split; intros H; intuition (subst; auto).
  - destruct (bytes_ltb k k1); cbn [In]; [split; intros H; intuition (subst; auto)|].
    rewrite IH. split; intros H; intuition (subst; auto).
Qed.

Lemma sort_kvs_In {V} (l : list (bytes * V)) x : In x (sort_kvs l) <-> In x l.
Proof.
  induction l as [|[k v] r IH]; cbn [sort_kvs fold_right In]; [tauto|].
  rewrite insert_kv_In. fold (sort_kvs r). rewrite IH. cbn [fst snd]. split; intros H; intuition (subst; auto).
Qed.

(* strictly increasing keys: no duplicates *)
Inductive kstrict {V} : list (bytes * V) -> Prop :=
| kst_nil : kstrict []
| kst_one kv : kstrict [kv]
| kst_cons k1 v1 k2 v2 r : bytes_ltb k1 k2 = true -> kstrict ((k2, v2) :: r) -> kstrict ((k1, v1) :: (k2, v2) :: r).

Lemma ksorted_nodup_strict {V} (l : list (bytes * V)) :
  ksorted l -> NoDup (map fst l) -> kstrict l.
Proof.
  induction 1 as [|kv|k1 v1 k2 v2 r H12 Hs IH]; intros Hnd; try constructor.
  - destruct (bytes_ltb k1 k2) eqn:E; [reflexivity|].
    pose proof (bytes_ltb_total _ _ E H12). subst. cbn [map fst] in Hnd.
    inversion Hnd as [|? ? Hnin _]; subst. exfalso. apply Hnin. left. reflexivity.
  - apply IH. cbn [map] in Hnd. inversion Hnd; assumption.
Qed.

Lemma sort_kvs_keys_perm {V} (l : list (bytes * V)) k :
  In k (map fst (sort_kvs l)) <-> In k (map fst l).
Proof.
  rewrite !in_map_iff. split; intros ((k', v) & <- & H); exists (k', v); (split; [reflexivity|]); apply sort_kvs_In; exact H.
Qed.

Lemma insert_kv_keys_nodup {V} k (v : V) l :
  ~ In k (map fst l) -> NoDup (map fst l) -> NoDup (map fst (insert_kv k v l)).
Proof.
  induction l as [|[k1 v1] r IH]; intros Hnin Hnd; cbn [insert_kv map fst].
  - constructor; [intros []|constructor].
  - destruct (bytes_ltb k k1); cbn [map fst].
    + constructor; assumption.
    + cbn [map fst] in Hnin, Hnd. inversion Hnd as [|? ? Hn1 Hr]; subst. constructor.
      * intros Hin. apply in_map_iff in Hin as ((k', v') & E & Hin). cbn in E; subst.
        apply insert_kv_In in Hin as [Hin|Hin]; [inversion Hin; subst; apply Hnin; left; reflexivity|].
        apply Hn1. apply in_map_iff. exists (k1, v'). auto.
      * apply IH; [intros H; apply Hnin; right; exact H|exact Hr].
Qed.

Lemma sort_kvs_keys_nodup {V} (l : list (bytes * V)) :
  NoDup (map fst l) -> NoDup (map fst (sort_kvs l)).
Proof.
  induction l as [|[k v] r IH]; intros Hnd; cbn [sort_kvs fold_right]; [constructor|].
  cbn [map fst] in Hnd. inversion Hnd as [|? ? Hnin Hr]; subst. fold (sort_kvs r).
  apply insert_kv_keys_nodup; [|apply IH; exact Hr].
  intros H. apply Hnin. apply (sort_kvs_keys_perm r k). exact H.
Qed.

(* ---- the span of a value inside the encoding of the dictionary that contains it ---- *)
Lemma in_split_concat {X} (f : X -> bytes) (l : list X) x :
  In x l -> exists pre post, concat (map f l) = pre ++ f x ++ post.
Proof.
  intros H. apply in_split in H as (l1 & l2 & ->).
  exists (concat (map f l1)), (concat (map f l2)).
  rewrite map_app, concat_app. cbn [map concat]. reflexivity.
Qed.

Lemma benc_dict_eq kvs :
  benc (BDict kvs) =
  (100%N :: concat (map (fun kv : bytes * bytes => benc_str (fst kv) ++ snd kv)
                        (sort_kvs (map (fun kv => (fst kv, benc (snd kv))) kvs)))) ++ [101%N].
Proof. reflexivity. Qed.

Theorem benc_dict_span kvs k v :
  In (k, v) kvs ->
  exists pre post, benc (BDict kvs) = pre ++ benc_str k ++ benc v ++ post.
Proof.
  intros Hin. rewrite benc_dict_eq.
  assert (In (k, benc v) (sort_kvs (map (fun kv => (fst kv, benc (snd kv))) kvs))) as H.
  { apply sort_kvs_In. apply in_map_iff. exists (k, v). auto. }
  destruct (in_split_concat (fun kv : bytes * bytes => benc_str (fst kv) ++ snd kv) _ _ H) as (pre & post & E).
  cbn [fst snd] in E.
  exists (100%N :: pre), (post ++ [101%N]).
  transitivity ((100%N :: (pre ++ (benc_str k ++ benc v) ++ post)) ++ [101%N]).
  - f_equal. f_equal. exact E.
  - cbn [app]. rewrite <- !app_assoc. reflexivity.
Qed.

(* keys are written in sorted order, strictly increasing when the dict has no duplicate key *)
Theorem benc_dict_keys_strict kvs :
  NoDup (map fst kvs) ->
  kstrict (sort_kvs (map (fun kv => (fst kv, benc (snd kv))) kvs)).
Proof.
  intros Hnd. apply ksorted_nodup_strict; [apply sort_kvs_sorted|].
  apply sort_kvs_keys_nodup. rewrite map_map. cbn [fst]. exact Hnd.
Qed.

(* ---- decoder: only DecodingError / ValueError / OverflowError ---- *)
Definition dec_err_ok {X} (r : res X) : Prop :=
  match r with Ok _ => True | Err e => e = DBdecode \/ e = IValue \/ e = IOverflow end.

Lemma read_integer_typed s : dec_err_ok (read_integer s).
Proof.
  unfold read_integer.
  destruct (match s with c :: r => if (c =? 45)%N then (true, r) else (false, s) | [] => (false, s) end) as [neg s1].
  destruct (read_digits_until 101%N s1 []) as [[ds rest]|]; [|cbn; auto].
  destruct ds as [|d0 dr]; [cbn; auto|].
  destruct ((d0 =? 48)%N && negb match dr with [] => true | _ => false end); [cbn; auto|].
  destruct (Z.of_nat (length (d0 :: dr)) >? max_str_digits); [cbn; auto|].
  destruct ((digits_value (d0 :: dr) =? 0) && neg); cbn; auto.
Qed.

Lemma read_string_typed c s : dec_err_ok (read_string c s).
Proof.
  unfold read_string.
  destruct (read_digits_until 58%N (c :: s) []) as [[ds rest]|]; [|cbn; auto].
  destruct ds as [|d0 dr]; [cbn; auto|].
  destruct (Z.of_nat (length (d0 :: dr)) >? max_str_digits); [cbn; auto|].
  destruct (digits_value (d0 :: dr) >? Z.of_nat (length rest)); [|cbn; auto].
  destruct (digits_value (d0 :: dr) >=? 2 ^ 63); cbn; auto.
Qed.

Lemma dec_loop_typed : forall fuel s st, dec_err_ok (dec_loop fuel s st).
Proof.
  induction fuel as [|fuel IH]; intros s st; cbn [dec_loop]; [cbn; auto|].
  destruct s as [|c r]; [cbn; auto|].
  destruct (c =? 101)%N.
  - destruct (pop_to_starter st []) as [[[isdict items] st']|]; [|cbn; auto].
    destruct (if isdict then match pairs_to_dict items [] with Some kvs => Some (BDict kvs) | None => None end
              else Some (BList items)) as [e|]; [|cbn; auto].
    destruct st'; [destruct r; cbn; auto|apply IH].
  - destruct (c =? 105)%N.
    + pose proof (read_integer_typed r) as H. destruct (read_integer r) as [[z rest]|e]; [|exact H].
      destruct st; [destruct rest; cbn; auto|apply IH].
    + destruct (c =? 100)%N; [apply IH|]. destruct (c =? 108)%N; [apply IH|].
      pose proof (read_string_typed c r) as H. destruct (read_string c r) as [[b rest]|e]; [|exact H].
      destruct st; [destruct rest; cbn; auto|apply IH].
Qed.

Theorem bdec_typed s : dec_err_ok (bdec s).
Proof. apply dec_loop_typed. Qed.
