(* PipeExploreProofs.v -- soundness of the exhaustive exploration: if the checker
   accepts a configuration, then every state reachable under ANY schedule (any
   sequence of enabled choices, any placement of timeouts) satisfies the checked
   predicate, and from every reachable state a state in which everything has
   ended can still be reached (no deadlock, no trap). *)
From Coq Require Import Lia FMapPositive.
From Torf Require Import Base Pipeline PipeExplore.
Open Scope Z_scope.

(* states reachable in the clock-normalised system *)
Inductive xreach (c : config) : state -> Prop :=
| xr_init : xreach c (norm (init c))
| xr_step s o : xreach c s -> In o (options c s) -> xreach c (xstep c s o).

Inductive finishes (c : config) : state -> Prop :=
| fin_term s : terminal c s = true -> finishes c s
| fin_step s o : In o (options c s) -> finishes c (xstep c s o) -> finishes c s.

(* ---- the hash table ---- *)
Definition Sub (T : tbl) (l : list state) : Prop := forall k x r, In (x, r) (bucket T k) -> In x l.

Lemma assoc_state_In s b r : assoc_state s b = Some r -> In (s, r) b.
Proof.
  induction b as [|[x r0] t IH]; cbn [assoc_state]; [discriminate|].
  destruct (state_eq_dec x s) as [->|_]; [intros E; injection E as <-; left; reflexivity|]. intros E. right. exact (IH E).
Qed.

Lemma bucket_tput T s r k :
  bucket (tput T s r) k = if Pos.eq_dec (hkey s) k then (s, r) :: bucket T (hkey s) else bucket T k.
Proof.
  unfold tput, bucket at 1. destruct (Pos.eq_dec (hkey s) k) as [<-|Hne].
  - rewrite PositiveMap.gss. reflexivity.
  - rewrite PositiveMap.gso by (intros E; apply Hne; symmetry; exact E). reflexivity.
Qed.

Lemma Sub_empty l : Sub (PositiveMap.empty _) l.
Proof. intros k x r. unfold bucket. rewrite PositiveMap.gempty. intros []. Qed.

Lemma Sub_tput T l s r : Sub T l -> In s l -> Sub (tput T s r) l.
Proof.
  intros HS Hs k x r0. rewrite bucket_tput. destruct (Pos.eq_dec (hkey s) k) as [E|E].
  - intros [Hx|Hx]; [injection Hx as <- _; exact Hs|exact (HS _ _ _ Hx)].
  - apply HS.
Qed.

Lemma Sub_fold l0 : forall l T, Sub T l0 -> incl l l0 -> Sub (fold_left (fun T s => tput T s O) l T) l0.
Proof.
  induction l as [|s l IH]; intros T HS Hi; cbn [fold_left]; [exact HS|].
  apply IH; [apply Sub_tput; [exact HS|apply Hi; left; reflexivity] | intros x Hx; apply Hi; right; exact Hx].
Qed.

Lemma tbuild_Sub l : Sub (tbuild l) l.
Proof. unfold tbuild. apply Sub_fold; [apply Sub_empty|apply incl_refl]. Qed.

Lemma tmem_sound T l s : Sub T l -> tmem T s = true -> In s l.
Proof.
  intros HS. unfold tmem, tget. destruct (assoc_state s (bucket T (hkey s))) as [r|] eqn:E; [|discriminate].
  intros _. apply assoc_state_In in E. exact (HS _ _ _ E).
Qed.

(* ---- closure ---- *)
Lemma closed_sound c l :
  closedb c l = true -> forall s o, In s l -> In o (options c s) -> In (xstep c s o) l.
Proof.
  unfold closedb. intros H s o Hs Ho. rewrite forallb_forall in H. specialize (H s Hs). rewrite forallb_forall in H.
  exact (tmem_sound _ _ _ (tbuild_Sub l) (H o Ho)).
Qed.

Lemma reach_in c l :
  closedb c l = true -> In (norm (init c)) l -> forall s, xreach c s -> In s l.
Proof.
  intros Hc H0 s Hr. induction Hr as [|s o Hr IH Ho]; [exact H0|]. exact (closed_sound c l Hc s o IH Ho).
Qed.

(* ---- descent to a terminal state ---- *)
Lemma descends_finishes c l R :
  closedb c l = true -> descendsb c l R = true ->
  forall r s, In s l -> (terminal c s = true \/ tget R s = Some r) -> finishes c s.
Proof.
  intros Hc Hd r. induction r as [r IH] using lt_wf_ind. intros s Hs Hrank.
  unfold descendsb in Hd. rewrite forallb_forall in Hd. pose proof (Hd s Hs) as H.
  apply orb_true_iff in H. destruct H as [Ht|H]; [apply fin_term; exact Ht|].
  destruct Hrank as [Ht|Hrank]; [apply fin_term; exact Ht|].
  rewrite Hrank in H. apply existsb_exists in H as (o & Ho & Hlt).
  destruct (tget R (xstep c s o)) as [r'|] eqn:E; [|discriminate].
  apply Nat.ltb_lt in Hlt. apply (fin_step c s o Ho).
  apply (IH r' Hlt); [exact (closed_sound c l Hc s o Hs Ho)|right; exact E].
Qed.

Lemma descends_all c l R :
  closedb c l = true -> descendsb c l R = true -> forall s, In s l -> finishes c s.
Proof.
  intros Hc Hd s Hs. pose proof Hd as Hd'. unfold descendsb in Hd'. rewrite forallb_forall in Hd'. pose proof (Hd' s Hs) as H.
  apply orb_true_iff in H. destruct H as [Ht|H]; [apply fin_term; exact Ht|].
  destruct (tget R s) as [r|] eqn:E; [|discriminate].
  exact (descends_finishes c l R Hc Hd r s Hs (or_intror E)).
Qed.

(* ---- the checker ---- *)
Theorem checkb_sound fuel depth c ref may_false raises :
  checkb fuel depth c ref may_false raises = true ->
  forall s, xreach c s -> goodb c ref may_false raises s = true /\ finishes c s.
Proof.
  unfold checkb. destruct (explore fuel c) as [l|]; [|discriminate].
  intros H s Hr. apply andb_true_iff in H as [H Hdesc]. apply andb_true_iff in H as [H Hgood]. apply andb_true_iff in H as [H0 Hclosed].
  pose proof (tmem_sound _ _ _ (tbuild_Sub l) H0) as Hin0.
  pose proof (reach_in c l Hclosed Hin0 s Hr) as Hs. split.
  - rewrite forallb_forall in Hgood. exact (Hgood s Hs).
  - exact (descends_all c l _ Hclosed Hdesc s Hs).
Qed.

(* reading the checked predicate *)
Lemma goodb_no_deadlock c ref mf rs s :
  goodb c ref mf rs s = true -> options c s = [] -> s_mdone s = true /\ running_threads c s = [].
Proof.
  unfold goodb, terminal. intros H Ho. rewrite Ho in H. cbn [negb orb] in H.
  apply andb_true_iff in H as [H _]. apply andb_true_iff in H as [H _]. apply andb_true_iff in H as [H1 H2].
  split; [exact H1|]. revert H2. destruct (running_threads c s); [reflexivity|discriminate].
Qed.

Lemma goodb_no_leftover c ref mf rs s :
  goodb c ref mf rs s = true -> s_mdone s = true -> running_threads c s = [].
Proof.
  unfold goodb. intros H Hd. apply andb_true_iff in H as [H _]. apply andb_true_iff in H as [_ H]. rewrite Hd in H. cbn [negb orb] in H.
  revert H. destruct (running_threads c s); [reflexivity|discriminate].
Qed.

Lemma goodb_result c ref mf rs s :
  goodb c ref mf rs s = true -> result_ok ref mf rs s = true.
Proof. unfold goodb. intros H. apply andb_true_iff in H as [_ H]. exact H. Qed.
