(* ThreadProofs.v -- C03/C04, unbounded: under EVERY schedule, with any number of
   hashers, pieces, faults and any clock, when the call has returned (other than by
   the RuntimeError of a refused reader / janitor / first hasher, the known finding)
   no worker thread is alive: the reader, the janitor and every hasher have ended.
   Proved by an invariant over the thread life cycles, the janitor's bookkeeping of
   the tracked hashers and the join sequence of the collecting thread. *)
From Coq Require Import Lia ZifyBool.
From Torf Require Import Base Pipeline PipelineProofs.
Open Scope Z_scope.

Definition is_hasher (c : config) (t : tid) : Prop := 3 <= t < 3 + Z.of_nat (cf_hashers c).

(* the part of the state the invariant talks about *)
Definition tview (s : state) :=
  (s_rst s, s_jst s, s_jpc s, s_tracked s, map fst (s_hs s), s_mpc s, s_mdone s, s_result s).

Definition joining (pc : mpc) : bool :=
  match pc with MHJoinAlive _ _ _ | MHJoin _ _ _ | MJJoinAlive _ | MJJoin _ => true | _ => false end.

Definition starting (pc : mpc) : bool :=
  match pc with MAlive _ | MStart _ => true | _ => false end.

Definition refused_fatal (s : state) : Prop := s_result s = Some (ResRuntimeError 1).

Record TInv (c : config) (s : state) : Prop := {
  t_len : length (s_hs s) = cf_hashers c;
  t_tracked : forall t, In t (s_tracked s) -> is_hasher c t;
  t_untracked : forall t, is_hasher c t -> ~ In t (s_tracked s) -> is_alive s t = false;
  t_jnew : s_jst s = TNew -> forall t, is_hasher c t -> In t (s_tracked s);
  t_start : forall t, s_mpc s = MAlive t \/ s_mpc s = MStart t ->
            s_jst s = TNew /\ (t = 1 \/ t = 2 \/ is_hasher c t) /\ (t = 1 -> s_rst s = TNew) /\ (t <> 1 -> s_rst s <> TNew);
  t_started : starting (s_mpc s) = false -> ~ refused_fatal s -> s_rst s <> TNew /\ s_jst s <> TNew;
  t_jwait : forall rest, s_jst s = TRunning -> s_jpc s = JWaitAlive rest ->
            exists pre, s_tracked s = pre ++ rest /\ forall t, In t pre -> is_alive s t = false;
  t_jclosed : (s_jst s = TRunning /\ s_jpc s = JPutClosed) \/ s_jst s = TDone ->
              forall t, In t (s_tracked s) -> is_alive s t = false;
  t_rjoined : joining (s_mpc s) = true \/ (s_mpc s = MDone /\ ~ refused_fatal s) -> is_alive s 1 = false;
  t_jjoined : s_mpc s = MDone -> ~ refused_fatal s -> is_alive s 2 = false;
  t_done : s_mdone s = true <-> s_mpc s = MDone;
  t_result : s_result s <> None -> s_mdone s = true
}.

(* ---- aliveness as a function of the view ---- *)
Definition hstate (hs : list tstate) (t : tid) : tstate := nth (hasher_index t) hs TDone.

Lemma tstate_of_view s t :
  tstate_of s t = if t =? 1 then s_rst s else if t =? 2 then s_jst s else hstate (map fst (s_hs s)) t.
Proof.
  unfold tstate_of, hstate. destruct (t =? 1); [reflexivity|]. destruct (t =? 2); [reflexivity|].
  generalize (hasher_index t) as i. induction (s_hs s) as [|[st pc] r IH]; intros [|i]; cbn; try reflexivity. apply IH.
Qed.

Lemma is_alive_view s s' t :
  s_rst s' = s_rst s -> s_jst s' = s_jst s -> map fst (s_hs s') = map fst (s_hs s) -> is_alive s' t = is_alive s t.
Proof. intros E1 E2 E3. unfold is_alive. rewrite !tstate_of_view, E1, E2, E3. reflexivity. Qed.

(* A step that leaves the janitor, the tracked list and main alone, keeps the "new" status of
   the reader and lets threads only end preserves the invariant. *)
Lemma TInv_workers c s s' :
  length (s_hs s') = length (s_hs s) ->
  s_jst s' = s_jst s -> s_jpc s' = s_jpc s -> s_tracked s' = s_tracked s -> s_mpc s' = s_mpc s ->
  s_mdone s' = s_mdone s -> s_result s' = s_result s ->
  (s_rst s' = TNew <-> s_rst s = TNew) ->
  (forall t, is_alive s' t = true -> is_alive s t = true) ->
  TInv c s -> TInv c s'.
Proof.
  intros El Ej Ejp Et Em Emd Er Hnew Hmono I. destruct I.
  assert (forall t, is_alive s t = false -> is_alive s' t = false) as Hdead.
  { intros t H. destruct (is_alive s' t) eqn:E; [|reflexivity]. apply Hmono in E. congruence. }
  unfold refused_fatal in *.
  constructor; unfold refused_fatal; rewrite ?El, ?Ej, ?Ejp, ?Et, ?Em, ?Emd, ?Er; auto.
  - intros t Ht. destruct (t_start0 t Ht) as (A & B & C & D). repeat split; try assumption; tauto.
  - intros Hs Hr. destruct (t_started0 Hs Hr) as [A B]. split; [tauto|exact B].
  - intros rest Hj Hp. destruct (t_jwait0 rest Hj Hp) as (pre & E & Hpre). exists pre. split; [exact E|]. auto.
Qed.

Ltac break_match :=
  repeat match goal with
         | |- context [match ?x with _ => _ end] => destruct x
         | |- context [if ?x then _ else _] => destruct x
         end.

(* ---- reader ---- *)
Lemma step_reader_view s : s_rst s = TRunning ->
  let s' := step_reader s in
  s_hs s' = s_hs s /\ s_jst s' = s_jst s /\ s_jpc s' = s_jpc s /\ s_tracked s' = s_tracked s /\ s_mpc s' = s_mpc s /\
  s_mdone s' = s_mdone s /\ s_result s' = s_result s /\ s_rst s' <> TNew.
Proof.
  intros Hrun. unfold step_reader, reader_next. break_match; cbn; repeat split; try reflexivity; try discriminate; congruence.
Qed.

Lemma set_now_tview s now : tview (set_now s now) = tview s /\ s_hs (set_now s now) = s_hs s.
Proof. split; reflexivity. Qed.

Lemma step_reader_TInv c s : s_rst s = TRunning -> TInv c s -> TInv c (step_reader s).
Proof.
  intros Hrun I. destruct (step_reader_view s Hrun) as (Eh & Ej & Ejp & Et & Em & Emd & Er & Hn).
  apply (TInv_workers c s); try assumption.
  - rewrite Eh. reflexivity.
  - split; intros H; [contradiction|congruence].
  - intros t. unfold is_alive. rewrite !tstate_of_view, Ej, Eh. destruct (t =? 1); [|auto].
    rewrite Hrun. auto.
Qed.

(* ---- hashers ---- *)
Lemma set_nth_length {X} (l : list X) : forall n x, length (set_nth l n x) = length l.
Proof. induction l as [|y r IH]; intros [|n] x; cbn; auto. Qed.

Lemma nth_set_nth {X} (l : list X) : forall i j x d, nth j (set_nth l i x) d = if Nat.eqb i j then (if Nat.ltb i (length l) then x else nth j l d) else nth j l d.
Proof.
  induction l as [|y r IH]; intros i j x d.
  - cbn. destruct i, j; cbn; try reflexivity; destruct (Nat.eqb i j); reflexivity.
  - destruct i as [|i], j as [|j]; cbn [set_nth nth Nat.eqb length]; try reflexivity.
    rewrite IH. destruct (Nat.eqb i j); [|reflexivity].
    destruct (Nat.ltb i (length r)) eqn:E1; destruct (Nat.ltb (S i) (S (length r))) eqn:E2; try reflexivity;
      apply Nat.ltb_lt in E1 || apply Nat.ltb_ge in E1; apply Nat.ltb_lt in E2 || apply Nat.ltb_ge in E2; lia.
Qed.

Lemma map_fst_set_nth {X Y} (l : list (X * Y)) : forall i x y, map fst (set_nth l i (x, y)) = set_nth (map fst l) i x.
Proof. induction l as [|[a b] r IH]; intros [|i] x y; cbn; try reflexivity. rewrite IH. reflexivity. Qed.

(* a thread state changes only for the hasher whose entry is replaced *)
Lemma tstate_upd_hasher s i st pc t :
  tstate_of (upd_hasher s i st pc) t =
  if (t =? 1) || (t =? 2) then tstate_of s t
  else if Nat.eqb i (hasher_index t) && Nat.ltb i (length (s_hs s)) then st else tstate_of s t.
Proof.
  rewrite !tstate_of_view. unfold upd_hasher. cbn [s_rst s_jst s_hs set_hs].
  destruct (t =? 1); [reflexivity|]. destruct (t =? 2); [reflexivity|]. cbn [orb].
  unfold hstate. rewrite map_fst_set_nth, nth_set_nth, map_length.
  destruct (Nat.eqb i (hasher_index t)); cbn [andb]; [|reflexivity].
  destruct (Nat.ltb i (length (s_hs s))); reflexivity.
Qed.

Lemma upd_hasher_view s i st pc :
  let s' := upd_hasher s i st pc in
  length (s_hs s') = length (s_hs s) /\ s_rst s' = s_rst s /\ s_jst s' = s_jst s /\ s_jpc s' = s_jpc s /\
  s_tracked s' = s_tracked s /\ s_mpc s' = s_mpc s /\ s_mdone s' = s_mdone s /\ s_result s' = s_result s.
Proof. unfold upd_hasher. cbn. rewrite set_nth_length. repeat split; reflexivity. Qed.

Lemma nth_error_hstate s i st pc t : nth_error (s_hs s) i = Some (st, pc) -> hasher_index t = i -> t <> 1 -> t <> 2 ->
  tstate_of s t = st.
Proof.
  intros Hn Hi H1 H2. unfold tstate_of. replace (t =? 1) with false by lia. replace (t =? 2) with false by lia.
  rewrite Hi, Hn. reflexivity.
Qed.

(* replacing the entry of a running hasher by a running or finished one *)
Lemma TInv_hasher_update c s0 s i pc0 st pc :
  tview s0 = tview s -> s_hs s0 = s_hs s ->
  nth_error (s_hs s) i = Some (TRunning, pc0) -> st <> TNew ->
  TInv c s -> TInv c (upd_hasher s0 i st pc).
Proof.
  intros Ev Eh Hn Hst I.
  destruct (upd_hasher_view s0 i st pc) as (El & Er & Ej & Ejp & Et & Em & Emd & Ers).
  unfold tview in Ev. injection Ev as V1 V2 V3 V4 V5 V6 V7 V8.
  apply (TInv_workers c s); try congruence.
  - rewrite Er, V1. tauto.
  - intros t. unfold is_alive. rewrite tstate_upd_hasher.
    destruct ((t =? 1) || (t =? 2)) eqn:E12.
    + rewrite !tstate_of_view, V1, V2, V5. auto.
    + destruct (Nat.eqb i (hasher_index t) && Nat.ltb i (length (s_hs s0))) eqn:Ei.
      * intros _. apply andb_true_iff in Ei as [Ei _]. apply Nat.eqb_eq in Ei.
        rewrite (nth_error_hstate s i TRunning pc0 t Hn (eq_sym Ei)) by lia. reflexivity.
      * rewrite !tstate_of_view, V1, V2, V5. auto.
Qed.

Lemma step_hasher_TInv c s i a : TInv c s -> TInv c (step_hasher s i a).
Proof.
  intros I. unfold step_hasher. destruct (nth_error (s_hs s) i) as [[st pc]|] eqn:Hn; [|exact I].
  destruct st; try exact I.
  destruct pc.
  - destruct a.
    + destruct (s_pq s) as [|[|idx h exc] r]; [exact I| |].
      * refine (TInv_hasher_update c (set_pq s r) s i _ _ _ eq_refl eq_refl Hn _ I); discriminate.
      * refine (TInv_hasher_update c (set_pq s r) s i _ _ _ eq_refl eq_refl Hn _ I); discriminate.
    + destruct (Nat.eqb i 0).
      * apply (TInv_workers c s); try reflexivity; [|exact I]. intros t H. exact H.
      * refine (TInv_hasher_update c (set_now s (s_now s + 504)) s i _ _ _ eq_refl eq_refl Hn _ I); discriminate.
  - refine (TInv_hasher_update c (set_hq s (s_hq s ++ [it])) s i _ _ _ eq_refl eq_refl Hn _ I); discriminate.
  - refine (TInv_hasher_update c (set_pq s (s_pq s ++ [QClosed])) s i _ _ _ eq_refl eq_refl Hn _ I); discriminate.
  - refine (TInv_hasher_update c (set_final s) s i _ _ _ eq_refl eq_refl Hn _ I); discriminate.
  - exact I.
Qed.

(* ---- janitor ---- *)
Lemma remove_tid_In t l x : In x (remove_tid t l) -> In x l.
Proof.
  induction l as [|y r IH]; cbn [remove_tid]; [auto|]. destruct (y =? t); cbn [In]; [auto|]. intros [H|H]; auto.
Qed.

Lemma remove_tid_notin t l x : In x l -> ~ In x (remove_tid t l) -> x = t.
Proof.
  induction l as [|y r IH]; cbn [remove_tid In]; [tauto|]. destruct (y =? t) eqn:E.
  - intros [H|H] Hn; [lia|contradiction].
  - cbn [In]. intros [H|H] Hn; [tauto|]. apply IH; tauto.
Qed.

Lemma is_alive_other s s' t : t <> 2 -> s_rst s' = s_rst s -> s_hs s' = s_hs s -> is_alive s' t = is_alive s t.
Proof.
  intros H2 Er Eh. unfold is_alive. rewrite !tstate_of_view, Er, Eh. replace (t =? 2) with false by lia. reflexivity.
Qed.

Lemma hasher_not_2 c t : is_hasher c t -> t <> 2 /\ t <> 1.
Proof. unfold is_hasher. lia. Qed.

Lemma TInv_janitor c s s' :
  s_jst s = TRunning -> s_hs s' = s_hs s -> s_rst s' = s_rst s -> s_mpc s' = s_mpc s ->
  s_mdone s' = s_mdone s -> s_result s' = s_result s -> s_jst s' <> TNew ->
  (forall t, In t (s_tracked s') -> In t (s_tracked s)) ->
  (forall t, In t (s_tracked s) -> ~ In t (s_tracked s') -> is_alive s t = false) ->
  (forall rest, s_jst s' = TRunning -> s_jpc s' = JWaitAlive rest ->
     exists pre, s_tracked s' = pre ++ rest /\ forall t, In t pre -> is_alive s t = false) ->
  ((s_jst s' = TRunning /\ s_jpc s' = JPutClosed) \/ s_jst s' = TDone ->
     forall t, In t (s_tracked s') -> is_alive s t = false) ->
  TInv c s -> TInv c s'.
Proof.
  intros Hrun Eh Er Em Emd Ers Hjn Hsub Hrem Hwait Hclosed I. destruct I.
  assert (forall t, t <> 2 -> is_alive s' t = is_alive s t) as Hal by (intros t Ht; apply is_alive_other; assumption).
  assert (starting (s_mpc s) = false) as Hns.
  { destruct (s_mpc s) eqn:E; try reflexivity; [destruct (t_start0 t (or_introl eq_refl)) as [A _]|destruct (t_start0 t (or_intror eq_refl)) as [A _]]; congruence. }
  unfold refused_fatal in *.
  constructor; unfold refused_fatal; rewrite ?Eh, ?Er, ?Em, ?Emd, ?Ers; auto.
  - intros t Ht Hn. rewrite Hal by (apply (hasher_not_2 c t Ht)).
    destruct (in_dec Z.eq_dec t (s_tracked s)) as [Hin|Hnin]; [apply Hrem; assumption|apply t_untracked0; assumption].
  - intros H. contradiction.
  - intros t Ht. exfalso. destruct Ht as [E|E]; rewrite E in Hns; discriminate.
  - intros _ Hr. split; [apply (t_started0 Hns Hr)|exact Hjn].
  - intros rest Hj Hp. destruct (Hwait rest Hj Hp) as (pre & E & Hpre). exists pre. split; [exact E|].
    intros t Ht. rewrite Hal; [apply Hpre; exact Ht|].
    assert (In t (s_tracked s')) as Hin by (rewrite E; apply in_or_app; left; exact Ht).
    apply (hasher_not_2 c t). apply t_tracked0. apply Hsub. exact Hin.
  - intros H t Ht. rewrite Hal; [apply (Hclosed H t Ht)|]. apply (hasher_not_2 c t). apply t_tracked0. apply Hsub. exact Ht.
  - intros H. rewrite Hal by lia. apply t_rjoined0. exact H.
  - intros Hm Hr. unfold is_alive. rewrite tstate_of_view. cbn [Z.eqb].
    destruct (s_jst s') eqn:E; try reflexivity. exfalso.
    specialize (t_jjoined0 Hm Hr). unfold is_alive in t_jjoined0. rewrite tstate_of_view in t_jjoined0. cbn [Z.eqb] in t_jjoined0.
    rewrite Hrun in t_jjoined0. discriminate.
Qed.

Ltac jan c s Hrun I :=
  match goal with |- TInv _ ?s' => refine (TInv_janitor c s s' Hrun eq_refl eq_refl eq_refl eq_refl eq_refl _ _ _ _ _ I) end;
  cbn [s_jst s_jpc s_tracked upd_janitor set_now set_hq].

Lemma step_janitor_TInv c s a : s_jst s = TRunning -> TInv c s -> TInv c (step_janitor s a).
Proof.
  intros Hrun I. unfold step_janitor. destruct (s_jpc s) as [|rest|rest| |] eqn:Epc.
  - (* JWait *)
    destruct a.
    + destruct (s_tracked s) as [|t0 l] eqn:Et.
      * jan c s Hrun I; rewrite ?Et.
        -- discriminate.
        -- auto.
        -- intros t H. contradiction.
        -- intros rest _ E. discriminate E.
        -- intros _ t [].
      * jan c s Hrun I; rewrite ?Et.
        -- discriminate.
        -- auto.
        -- intros t H Hn. contradiction.
        -- intros rest _ E. injection E as <-. exists []. split; [reflexivity|]. intros t [].
        -- intros [[_ E]|E]; discriminate E.
    + destruct (s_tracked s) as [|t0 l] eqn:Et.
      * jan c s Hrun I; rewrite ?Et.
        -- discriminate.
        -- auto.
        -- intros t H. contradiction.
        -- intros rest _ E. discriminate E.
        -- intros [[_ E]|E]; discriminate E.
      * jan c s Hrun I; rewrite ?Et.
        -- discriminate.
        -- auto.
        -- intros t H Hn. contradiction.
        -- intros rest _ E. discriminate E.
        -- intros [[_ E]|E]; discriminate E.
  - (* JWaitAlive *)
    destruct (t_jwait c s I rest Hrun Epc) as (pre & Etr & Hpre).
    destruct rest as [|t rest].
    + jan c s Hrun I.
      * discriminate.
      * auto.
      * intros t H Hn. contradiction.
      * intros rest _ E. discriminate E.
      * intros _ t Ht. apply Hpre. rewrite Etr, app_nil_r in Ht. exact Ht.
    + destruct (is_alive s t) eqn:Eal.
      * jan c s Hrun I.
        -- discriminate.
        -- auto.
        -- intros x H Hn. contradiction.
        -- intros rest' _ E. injection E as <-. exists []. split; [reflexivity|]. intros x [].
        -- intros [[_ E]|E]; discriminate E.
      * destruct rest as [|t' rest].
        -- jan c s Hrun I.
           ++ discriminate.
           ++ auto.
           ++ intros x H Hn. contradiction.
           ++ intros rest' _ E. discriminate E.
           ++ intros _ x Hx. rewrite Etr in Hx. apply in_app_or in Hx as [Hx|[<-|[]]]; [apply Hpre; exact Hx|exact Eal].
        -- jan c s Hrun I.
           ++ discriminate.
           ++ auto.
           ++ intros x H Hn. contradiction.
           ++ intros rest' _ E. injection E as <-. exists (pre ++ [t]). split; [rewrite Etr, <- app_assoc; reflexivity|].
              intros x Hx. apply in_app_or in Hx as [Hx|[<-|[]]]; [apply Hpre; exact Hx|exact Eal].
           ++ intros [[_ E]|E]; discriminate E.
  - (* JPruneAlive *)
    destruct rest as [|t rest].
    + jan c s Hrun I.
      * discriminate.
      * auto.
      * intros x H Hn. contradiction.
      * intros rest _ E. discriminate E.
      * intros [[_ E]|E]; discriminate E.
    + assert (forall x, In x (if is_alive s t then s_tracked s else remove_tid t (s_tracked s)) -> In x (s_tracked s)) as Hsub.
      { intros x. destruct (is_alive s t); [auto|apply remove_tid_In]. }
      assert (forall x, In x (s_tracked s) -> ~ In x (if is_alive s t then s_tracked s else remove_tid t (s_tracked s)) -> is_alive s x = false) as Hrem.
      { intros x Hin Hn. destruct (is_alive s t) eqn:Eal; [contradiction|]. rewrite (remove_tid_notin t _ x Hin Hn). exact Eal. }
      destruct rest as [|t' rest].
      * jan c s Hrun I.
        -- discriminate.
        -- exact Hsub.
        -- exact Hrem.
        -- intros rest _ E. discriminate E.
        -- intros [[_ E]|E]; discriminate E.
      * jan c s Hrun I.
        -- discriminate.
        -- exact Hsub.
        -- exact Hrem.
        -- intros rest' _ E. discriminate E.
        -- intros [[_ E]|E]; discriminate E.
  - (* JPutClosed *)
    jan c s Hrun I.
    + discriminate.
    + auto.
    + intros x H Hn. contradiction.
    + intros rest E. discriminate E.
    + intros _. apply (t_jclosed c s I). left. split; assumption.
  - exact I.
Qed.

(* ---- the collecting thread ---- *)

Lemma not_done_facts c s : TInv c s -> s_mdone s = false -> s_result s = None /\ s_mpc s <> MDone.
Proof.
  intros I Hmd. split.
  - destruct (s_result s) eqn:E; [|reflexivity]. exfalso.
    assert (s_mdone s = true) by (apply (t_result c s I); rewrite E; discriminate). congruence.
  - intros E. apply (t_done c s I) in E. congruence.
Qed.

(* a step of main that only moves its program counter (and touches nothing else the invariant reads) *)
Lemma TInv_pc c s s' :
  s_rst s' = s_rst s -> s_jst s' = s_jst s -> s_jpc s' = s_jpc s -> s_tracked s' = s_tracked s -> s_hs s' = s_hs s ->
  s_mdone s' = s_mdone s -> s_result s' = s_result s ->
  s_mdone s = false -> s_mpc s' <> MDone ->
  (forall t, s_mpc s' = MAlive t \/ s_mpc s' = MStart t ->
     s_jst s = TNew /\ (t = 1 \/ t = 2 \/ is_hasher c t) /\ (t = 1 -> s_rst s = TNew) /\ (t <> 1 -> s_rst s <> TNew)) ->
  (starting (s_mpc s') = false -> s_rst s <> TNew /\ s_jst s <> TNew) ->
  (joining (s_mpc s') = true -> is_alive s 1 = false) ->
  TInv c s -> TInv c s'.
Proof.
  intros Er Ej Ejp Et Eh Emd Ers Hmd Hnd Hstart Hstarted Hjoin I.
  destruct (not_done_facts c s I Hmd) as [Hres Hpc]. destruct I.
  assert (forall t, is_alive s' t = is_alive s t) as Hal.
  { intros t. apply is_alive_view; [exact Er|exact Ej|rewrite Eh; reflexivity]. }
  unfold refused_fatal in *.
  constructor; unfold refused_fatal; rewrite ?Er, ?Ej, ?Ejp, ?Et, ?Eh, ?Emd, ?Ers.
  - exact t_len0.
  - exact t_tracked0.
  - intros t Ht Hn. rewrite Hal. auto.
  - exact t_jnew0.
  - exact Hstart.
  - intros H _. apply Hstarted. exact H.
  - intros rest Hj Hp. destruct (t_jwait0 rest Hj Hp) as (pre & E & Hpre). exists pre. split; [exact E|].
    intros t Ht. rewrite Hal. auto.
  - intros H t Ht. rewrite Hal. auto.
  - intros [H|[H _]]; [rewrite Hal; auto|contradiction].
  - intros H. contradiction.
  - rewrite Hmd. split; [discriminate|intros H; contradiction].
  - rewrite Hres. intros H. contradiction.
Qed.

(* the call returns *)
Lemma TInv_finish_main c s r :
  s_mdone s = false ->
  (r <> ResRuntimeError 1 -> is_alive s 1 = false /\ is_alive s 2 = false /\ s_rst s <> TNew /\ s_jst s <> TNew) ->
  TInv c s -> TInv c (finish_main s r).
Proof.
  intros Hmd Hr I. destruct I.
  assert (forall t, is_alive (finish_main s r) t = is_alive s t) as Hal by (intros t; apply is_alive_view; reflexivity).
  constructor; unfold refused_fatal; cbn [finish_main s_hs s_tracked s_jst s_jpc s_mpc s_mdone s_result s_rst].
  - exact t_len0.
  - exact t_tracked0.
  - intros t Ht Hn. rewrite Hal. auto.
  - exact t_jnew0.
  - intros t [H|H]; discriminate H.
  - intros _ Hnf. destruct Hr as (_ & _ & A & B); [congruence|]. split; assumption.
  - intros rest Hj Hp. destruct (t_jwait0 rest Hj Hp) as (pre & E & Hpre). exists pre. split; [exact E|].
    intros t Ht. rewrite Hal. auto.
  - intros H t Ht. rewrite Hal. auto.
  - intros [H|[_ Hnf]]; [discriminate H|]. rewrite Hal. apply Hr. congruence.
  - intros _ Hnf. rewrite Hal. apply Hr. congruence.
  - split; reflexivity.
  - reflexivity.
Qed.

Lemma collect_item_view c s idx h exc :
  let s' := collect_item c s idx h exc in
  s_rst s' = s_rst s /\ s_jst s' = s_jst s /\ s_jpc s' = s_jpc s /\ s_tracked s' = s_tracked s /\ s_hs s' = s_hs s /\
  s_mdone s' = s_mdone s /\ s_result s' = s_result s /\
  starting (s_mpc s') = false /\ joining (s_mpc s') = false /\ s_mpc s' <> MDone.
Proof.
  unfold collect_item. break_match; cbn; repeat split; try reflexivity; discriminate.
Qed.

Lemma next_hasher_joining s o pos : joining (next_hasher s o pos) = true /\ starting (next_hasher s o pos) = false /\ next_hasher s o pos <> MDone.
Proof. unfold next_hasher. destruct (nth_error (s_tracked s) pos); repeat split; try reflexivity; discriminate. Qed.

Lemma reader_next_view s todo idx :
  let s' := reader_next s todo idx in
  s_rst s' = TRunning /\ s_jst s' = s_jst s /\ s_jpc s' = s_jpc s /\ s_tracked s' = s_tracked s /\ s_hs s' = s_hs s /\
  s_mdone s' = s_mdone s /\ s_result s' = s_result s /\ s_mpc s' = s_mpc s.
Proof. unfold reader_next. break_match; cbn; repeat split; reflexivity. Qed.

Lemma next_to_start_valid c t t' : (1 <= cf_hashers c)%nat -> t = 1 \/ t = 2 \/ is_hasher c t ->
  next_to_start c t = Some t' -> t' <> 1 /\ (t' = 2 \/ is_hasher c t').
Proof.
  unfold next_to_start, is_hasher. intros Hn Ht. destruct (t =? 1) eqn:E1.
  - intros E. injection E as <-. split; [lia|right; lia].
  - destruct (t =? 2) eqn:E2; [discriminate|]. destruct (t - 3 + 1 <? Z.of_nat (cf_hashers c)) eqn:E3; intros E; injection E as <-.
    + split; [lia|right; lia].
    + split; [lia|left; reflexivity].
Qed.

(* starting a thread (the janitor is still new, so no bookkeeping about dead hashers exists yet) *)
Lemma TInv_start c s t pc' :
  (1 <= cf_hashers c)%nat -> s_mdone s = false -> s_mpc s = MStart t ->
  (forall t', pc' = MAlive t' \/ pc' = MStart t' -> t' <> 1 /\ (t' = 2 \/ is_hasher c t') /\ t <> 2) ->
  (starting pc' = false -> t = 2) -> joining pc' = false -> pc' <> MDone ->
  TInv c s -> TInv c (set_mpc (start_thread s t) pc').
Proof.
  intros Hn Hmd Hpc Hnext Hlast Hnj Hnd I.
  destruct (not_done_facts c s I Hmd) as [Hres _].
  destruct (t_start c s I t (or_intror Hpc)) as (Hjnew & Hvalid & Hr1 & Hrn).
  pose proof (t_jnew c s I Hjnew) as Hall. destruct I.
  unfold start_thread. destruct (t =? 1) eqn:E1.
  - (* the reader *)
    assert (t = 1) as -> by lia.
    destruct (reader_next_view (upd_reader s TRunning RStopRead (s_rtodo s) 0 None) (s_rtodo s) 0) as (Ar & Aj & Ajp & At & Ah & Amd & Ares & Am).
    set (s1 := reader_next (upd_reader s TRunning RStopRead (s_rtodo s) 0 None) (s_rtodo s) 0) in *.
    assert (forall x, x <> 1 -> is_alive (set_mpc s1 pc') x = is_alive s x) as Hal.
    { intros x Hx. unfold is_alive. rewrite !tstate_of_view. cbn [set_mpc s_rst s_jst s_hs]. rewrite Aj, Ah. cbn [upd_reader s_jst s_hs].
      replace (x =? 1) with false by lia. reflexivity. }
    constructor; unfold refused_fatal; cbn [set_mpc s_hs s_tracked s_jst s_jpc s_mpc s_mdone s_result s_rst];
      rewrite ?Ar, ?Aj, ?Ajp, ?At, ?Ah, ?Amd, ?Ares; cbn [upd_reader s_hs s_tracked s_jst s_jpc s_mdone s_result].
    + exact t_len0.
    + exact t_tracked0.
    + intros x Hx Hnx. exfalso. apply Hnx. apply Hall. exact Hx.
    + exact t_jnew0.
    + intros t' Ht'. destruct (Hnext t' Ht') as (A & B & _). repeat split; try assumption; [tauto| |discriminate]. intros; contradiction.
    + intros Hs. specialize (Hlast Hs). discriminate Hlast.
    + intros rest Hj. congruence.
    + intros [[Hj _]|Hj]; congruence.
    + rewrite Hnj. intros [H|[H _]]; [discriminate|contradiction].
    + intros H. contradiction.
    + rewrite Hmd. split; [discriminate|intros H; contradiction].
    + rewrite Hres. intros H. contradiction.
  - destruct (t =? 2) eqn:E2.
    + (* the janitor *)
      assert (t = 2) as -> by lia.
      assert (forall x, x <> 2 -> is_alive (set_mpc (upd_janitor s TRunning JWait (s_tracked s)) pc') x = is_alive s x) as Hal.
      { intros x Hx. unfold is_alive. rewrite !tstate_of_view. cbn [set_mpc upd_janitor s_rst s_jst s_hs]. replace (x =? 2) with false by lia. reflexivity. }
      constructor; unfold refused_fatal; cbn [set_mpc upd_janitor s_hs s_tracked s_jst s_jpc s_mpc s_mdone s_result s_rst].
      * exact t_len0.
      * exact t_tracked0.
      * intros x Hx Hnx. exfalso. apply Hnx. apply Hall. exact Hx.
      * discriminate.
      * intros t' Ht'. destruct (Hnext t' Ht') as (_ & _ & C). contradiction.
      * intros _ _. split; [apply Hrn; lia|discriminate].
      * intros rest _ E. discriminate E.
      * intros [[_ E]|E]; discriminate E.
      * rewrite Hnj. intros [H|[H _]]; [discriminate|contradiction].
      * intros H. contradiction.
      * rewrite Hmd. split; [discriminate|intros H; contradiction].
      * rewrite Hres. intros H. contradiction.
    + (* a hasher *)
      assert (is_hasher c t) as Hh by (destruct Hvalid as [H|[H|H]]; [lia|lia|exact H]).
      destruct (upd_hasher_view s (hasher_index t) TRunning HGet) as (El & Er & Ej & Ejp & Et & Em & Emd & Ers).
      assert (forall x, x <> t -> is_hasher c x -> is_alive (set_mpc (upd_hasher s (hasher_index t) TRunning HGet) pc') x = is_alive s x) as Hal.
      { intros x Hx Hxh. unfold is_alive. change (tstate_of (set_mpc (upd_hasher s (hasher_index t) TRunning HGet) pc') x) with (tstate_of (upd_hasher s (hasher_index t) TRunning HGet) x).
        rewrite tstate_upd_hasher. unfold is_hasher in *. replace ((x =? 1) || (x =? 2)) with false by lia.
        replace (Nat.eqb (hasher_index t) (hasher_index x)) with false; [reflexivity|]. symmetry. apply Nat.eqb_neq. unfold hasher_index. lia. }
      constructor; unfold refused_fatal; cbn [set_mpc s_hs s_tracked s_jst s_jpc s_mpc s_mdone s_result s_rst];
        rewrite ?El, ?Er, ?Ej, ?Ejp, ?Et, ?Emd, ?Ers.
      * exact t_len0.
      * exact t_tracked0.
      * intros x Hx Hnx. exfalso. apply Hnx. apply Hall. exact Hx.
      * exact t_jnew0.
      * intros t' Ht'. destruct (Hnext t' Ht') as (A & B & _). repeat split; try assumption; [tauto| |intros _; apply Hrn; lia]. intros; contradiction.
      * intros Hs. specialize (Hlast Hs). lia.
      * intros rest Hj. congruence.
      * intros [[Hj _]|Hj]; congruence.
      * rewrite Hnj. intros [H|[H _]]; [discriminate|contradiction].
      * intros H. contradiction.
      * rewrite Hmd. split; [discriminate|intros H; contradiction].
      * rewrite Hres. intros H. contradiction.
Qed.

Lemma main_enabled_not_done c s a : enabled c s 0 a = true -> s_mdone s = false /\ In a (main_enabled s).
Proof.
  unfold enabled. intros H. apply existsb_exists in H as ([t a'] & Hin & Ht). cbn [fst snd] in Ht.
  apply andb_true_iff in Ht as [Ht Ha]. assert (t = 0) as -> by lia.
  assert (a' = a) as -> by (destruct a', a; try discriminate; reflexivity).
  unfold options in Hin. apply in_app_or in Hin as [Hin|Hin].
  - apply in_map_iff in Hin as (x & E & Hx). injection E as <-. split; [|exact Hx].
    unfold main_enabled in Hx. destruct (s_mdone s); [destruct Hx|reflexivity].
  - exfalso. apply in_app_or in Hin as [Hin|Hin]; [apply in_map_iff in Hin as (x & E & _); discriminate E|].
    apply in_app_or in Hin as [Hin|Hin]; [apply in_map_iff in Hin as (x & E & _); discriminate E|].
    apply in_flat_map in Hin as (i & _ & Hi). apply in_map_iff in Hi as (x & E & _). pose proof (f_equal fst E) as E1. cbn [fst] in E1. unfold hasher_tid in E1. lia.
Qed.

Ltac pc_step c s Hmd I :=
  match goal with |- TInv _ ?s' => refine (TInv_pc c s s' eq_refl eq_refl eq_refl eq_refl eq_refl eq_refl eq_refl Hmd _ _ _ _ I) end;
  cbn [set_mpc set_hq set_stop upd_collector s_mpc].

Ltac pc_simple c s Hmd I :=
  pc_step c s Hmd I; [discriminate | (let E := fresh "E" in intros ? [E|E]; discriminate E) | (intros _; split; assumption) | ].

Lemma step_main_TInv c s a inc : (1 <= cf_hashers c)%nat -> enabled c s 0 a = true -> TInv c s -> TInv c (step_main c s inc).
Proof.
  intros Hn Hen I. destruct (main_enabled_not_done c s a Hen) as [Hmd Hin].
  destruct (not_done_facts c s I Hmd) as [Hres Hpcnd].
  assert (forall t, s_mpc s <> MAlive t -> s_mpc s <> MStart t -> True) as _ by auto.
  unfold step_main. destruct (s_mpc s) as [t|t| |idx h exc|aft|aft|o|o|o pos t|o pos t|o|o|] eqn:Epc.
  - (* MAlive t *)
    pc_step c s Hmd I.
    + discriminate.
    + intros t' [E|E]; [discriminate E|]. injection E as <-. apply (t_start c s I t). left. exact Epc.
    + discriminate.
    + discriminate.
  - (* MStart t *)
    destruct (t_start c s I t (or_intror Epc)) as (Hjnew & Hvalid & Hr1 & Hrn).
    destruct (refused c t) eqn:Eref.
    + destruct ((t =? 1) || (t =? 2) || (t =? 3)) eqn:E123.
      * apply TInv_finish_main; [exact Hmd| |exact I]. intros H. contradiction.
      * destruct (next_to_start c t) as [t'|] eqn:Ent.
        -- destruct (next_to_start_valid c t t' Hn Hvalid Ent) as [A B].
           pc_step c s Hmd I.
           ++ discriminate.
           ++ intros t'' [E|E]; [|discriminate E]. injection E as <-. repeat split; try assumption; [tauto|contradiction|intros _; apply Hrn; lia].
           ++ discriminate.
           ++ discriminate.
        -- unfold next_to_start in Ent. replace (t =? 1) with false in Ent by lia. replace (t =? 2) with false in Ent by lia.
           destruct (t - 3 + 1 <? Z.of_nat (cf_hashers c)); discriminate Ent.
    + destruct (next_to_start c t) as [t'|] eqn:Ent.
      * destruct (next_to_start_valid c t t' Hn Hvalid Ent) as [A B].
        apply (TInv_start c s t (MAlive t') Hn Hmd Epc); try reflexivity; try discriminate; [|exact I].
        intros t'' [E|E]; [|discriminate E]. injection E as <-. repeat split; try assumption.
        intros ->. unfold next_to_start in Ent. cbn in Ent. discriminate Ent.
      * apply (TInv_start c s t MGet Hn Hmd Epc); try reflexivity; try discriminate; [| |exact I].
        -- intros t'' [E|E]; discriminate E.
        -- intros _. unfold next_to_start in Ent. destruct (t =? 1); [discriminate|]. destruct (t =? 2) eqn:E2; [lia|].
           destruct (t - 3 + 1 <? Z.of_nat (cf_hashers c)); discriminate Ent.
  - (* MGet *)
    destruct (t_started c s I) as [Hr Hj]; [rewrite Epc; reflexivity|unfold refused_fatal; rewrite Hres; discriminate|].
    destruct (s_hq s) as [|[|idx h exc] r]; [exact I| |].
    + pc_simple c s Hmd I. discriminate.
    + destruct (existsb (Z.eqb idx) (s_seen (set_hq s r))).
      * pc_simple c s Hmd I. discriminate.
      * pc_simple c s Hmd I. discriminate.
  - (* MClock *)
    destruct (t_started c s I) as [Hr Hj]; [rewrite Epc; reflexivity|unfold refused_fatal; rewrite Hres; discriminate|].
    destruct (collect_item_view c (set_now s (s_now s + inc)) idx h exc) as (A1 & A2 & A3 & A4 & A5 & A6 & A7 & A8 & A9 & A10).
    apply (TInv_pc c s); try assumption.
    + intros t [E|E]; rewrite E in A8; discriminate A8.
    + intros _. split; assumption.
    + intros E. rewrite E in A9. discriminate A9.
  - (* MStopRead *)
    destruct (t_started c s I) as [Hr Hj]; [rewrite Epc; reflexivity|unfold refused_fatal; rewrite Hres; discriminate|].
    destruct (s_stop s); [destruct aft|]; pc_simple c s Hmd I; discriminate.
  - (* MStopWrite *)
    destruct (t_started c s I) as [Hr Hj]; [rewrite Epc; reflexivity|unfold refused_fatal; rewrite Hres; discriminate|].
    destruct aft; pc_simple c s Hmd I; discriminate.
  - (* MRJoinAlive *)
    destruct (t_started c s I) as [Hr Hj]; [rewrite Epc; reflexivity|unfold refused_fatal; rewrite Hres; discriminate|].
    destruct (is_alive s 1) eqn:Eal.
    + pc_simple c s Hmd I. discriminate.
    + destruct (next_hasher_joining s (raise_of o (s_rexc s)) 0) as (J1 & J2 & J3).
      pc_step c s Hmd I.
      * exact J3.
      * intros t [E|E]; rewrite E in J2; discriminate J2.
      * intros _; split; assumption.
      * intros _. exact Eal.
  - (* MRJoin *)
    destruct (t_started c s I) as [Hr Hj]; [rewrite Epc; reflexivity|unfold refused_fatal; rewrite Hres; discriminate|].
    assert (is_alive s 1 = false) as Eal.
    { unfold main_enabled in Hin. rewrite Hmd, Epc in Hin. unfold is_alive, tstate_of. cbn [Z.eqb]. destruct (s_rst s); [destruct Hin|destruct Hin|reflexivity]. }
    destruct (next_hasher_joining s (raise_of o (s_rexc s)) 0) as (J1 & J2 & J3).
    pc_step c s Hmd I.
    + exact J3.
    + intros t [E|E]; rewrite E in J2; discriminate J2.
    + intros _; split; assumption.
    + intros _. exact Eal.
  - (* MHJoinAlive *)
    destruct (t_started c s I) as [Hr Hj]; [rewrite Epc; reflexivity|unfold refused_fatal; rewrite Hres; discriminate|].
    assert (is_alive s 1 = false) as Eal by (apply (t_rjoined c s I); left; rewrite Epc; reflexivity).
    destruct (is_alive s t).
    + pc_simple c s Hmd I. intros _; exact Eal.
    + destruct (next_hasher_joining s o (S pos)) as (J1 & J2 & J3).
      pc_step c s Hmd I.
      * exact J3.
      * intros t' [E|E]; rewrite E in J2; discriminate J2.
      * intros _; split; assumption.
      * intros _. exact Eal.
  - (* MHJoin *)
    destruct (t_started c s I) as [Hr Hj]; [rewrite Epc; reflexivity|unfold refused_fatal; rewrite Hres; discriminate|].
    assert (is_alive s 1 = false) as Eal by (apply (t_rjoined c s I); left; rewrite Epc; reflexivity).
    destruct (next_hasher_joining s o (S pos)) as (J1 & J2 & J3).
    pc_step c s Hmd I.
    + exact J3.
    + intros t' [E|E]; rewrite E in J2; discriminate J2.
    + intros _; split; assumption.
    + intros _. exact Eal.
  - (* MJJoinAlive *)
    destruct (t_started c s I) as [Hr Hj]; [rewrite Epc; reflexivity|unfold refused_fatal; rewrite Hres; discriminate|].
    assert (is_alive s 1 = false) as Eal by (apply (t_rjoined c s I); left; rewrite Epc; reflexivity).
    destruct (is_alive s 2) eqn:Ej2.
    + pc_simple c s Hmd I. intros _; exact Eal.
    + unfold finish. destruct o; apply TInv_finish_main; try assumption; intros _; repeat split; assumption.
  - (* MJJoin *)
    destruct (t_started c s I) as [Hr Hj]; [rewrite Epc; reflexivity|unfold refused_fatal; rewrite Hres; discriminate|].
    assert (is_alive s 1 = false) as Eal by (apply (t_rjoined c s I); left; rewrite Epc; reflexivity).
    assert (is_alive s 2 = false) as Ej2.
    { unfold main_enabled in Hin. rewrite Hmd, Epc in Hin. unfold is_alive, tstate_of. cbn [Z.eqb]. destruct (s_jst s); [destruct Hin|destruct Hin|reflexivity]. }
    unfold finish. destruct o; apply TInv_finish_main; try assumption; intros _; repeat split; assumption.
  - exact I.
Qed.

(* ---- every reachable state ---- *)
Lemma enabled_tid c s t a : enabled c s t a = true ->
  (t = 0 /\ In a (main_enabled s)) \/ (t = 1 /\ In a (reader_enabled s)) \/ (t = 2 /\ In a (janitor_enabled s)) \/ 3 <= t.
Proof.
  unfold enabled. intros H. apply existsb_exists in H as ([t' a'] & Hin & Ht). cbn [fst snd] in Ht.
  apply andb_true_iff in Ht as [Ht Ha]. assert (t' = t) as -> by lia.
  assert (a' = a) as -> by (destruct a', a; try discriminate; reflexivity).
  unfold options in Hin. apply in_app_or in Hin as [Hin|Hin].
  - apply in_map_iff in Hin as (x & E & Hx). injection E as <- <-. left. auto.
  - apply in_app_or in Hin as [Hin|Hin].
    + apply in_map_iff in Hin as (x & E & Hx). injection E as <- <-. right. left. auto.
    + apply in_app_or in Hin as [Hin|Hin].
      * apply in_map_iff in Hin as (x & E & Hx). injection E as <- <-. right. right. left. auto.
      * apply in_flat_map in Hin as (i & _ & Hi). apply in_map_iff in Hi as (x & E & _).
        pose proof (f_equal fst E) as E1. cbn [fst] in E1. unfold hasher_tid in E1. right. right. right. lia.
Qed.

Lemma TInv_init c : TInv c (init c).
Proof.
  assert (forall t, is_hasher c t <-> In t (hasher_tids (cf_hashers c))) as Hh.
  { intros t. unfold hasher_tids, is_hasher. rewrite in_map_iff. split.
    - intros H. exists (Z.to_nat (t - 3)). split; [unfold hasher_tid; lia|apply in_seq; lia].
    - intros (i & <- & Hi). apply in_seq in Hi. unfold hasher_tid. lia. }
  constructor; unfold refused_fatal; cbn.
  - rewrite map_length, seq_length. reflexivity.
  - intros t. apply Hh.
  - intros t Ht Hn. exfalso. apply Hn. apply Hh. exact Ht.
  - intros _ t. apply Hh.
  - intros t [E|E]; [|discriminate E]. injection E as <-. repeat split; auto.
  - discriminate.
  - discriminate.
  - intros [[E _]|E]; discriminate E.
  - intros [E|[E _]]; discriminate E.
  - discriminate.
  - split; discriminate.
  - intros H. contradiction.
Qed.

Theorem thread_invariant c s : (1 <= cf_hashers c)%nat -> reach c s -> TInv c s.
Proof.
  intros Hn. induction 1 as [|s t a inc Hr IH Hen Hinc]; [apply TInv_init|].
  unfold step. destruct (enabled_tid c s t a Hen) as [[-> Hin]|[[-> Hin]|[[-> Hin]|Ht]]].
  - cbn [Z.eqb]. apply (step_main_TInv c s a inc Hn Hen IH).
  - cbn [Z.eqb]. assert (s_rst s = TRunning) as Hrun.
    { unfold reader_enabled in Hin. destruct (s_rst s); [destruct Hin|reflexivity|destruct Hin]. }
    destruct (s_rpc s); try (apply step_reader_TInv; assumption).
    apply step_reader_TInv; [exact Hrun|]. apply (TInv_workers c s); try reflexivity; [|exact IH]. intros x H. exact H.
  - cbn [Z.eqb]. assert (s_jst s = TRunning) as Hrun.
    { unfold janitor_enabled in Hin. destruct (s_jst s); [destruct Hin|reflexivity|destruct Hin]. }
    apply step_janitor_TInv; assumption.
  - replace (t =? 0) with false by lia. replace (t =? 1) with false by lia. replace (t =? 2) with false by lia.
    apply step_hasher_TInv. exact IH.
Qed.

(* When the call has returned -- other than by the RuntimeError of a refused reader, janitor or
   first hasher -- no worker thread is running: for every schedule, every number of hashers and
   pieces, every fault plan and every clock. *)
Theorem no_worker_left c s :
  (1 <= cf_hashers c)%nat -> reach c s -> s_mdone s = true -> s_result s <> Some (ResRuntimeError 1) ->
  running_threads c s = [].
Proof.
  intros Hn Hr Hmd Hres. pose proof (thread_invariant c s Hn Hr) as I.
  assert (s_mpc s = MDone) as Hpc by (apply (t_done c s I); exact Hmd).
  assert (~ refused_fatal s) as Hnf by exact Hres.
  assert (is_alive s 1 = false) as H1 by (apply (t_rjoined c s I); right; split; assumption).
  assert (is_alive s 2 = false) as H2 by (apply (t_jjoined c s I); assumption).
  assert (s_jst s = TDone) as Hj.
  { destruct (t_started c s I) as [_ B]; [rewrite Hpc; reflexivity|exact Hnf|].
    unfold is_alive in H2. rewrite tstate_of_view in H2. cbn [Z.eqb] in H2. destruct (s_jst s); [contradiction|discriminate|reflexivity]. }
  unfold running_threads. cbn [filter]. rewrite H1, H2.
  assert (forall t, In t (hasher_tids (cf_hashers c)) -> is_alive s t = false) as Hh.
  { intros t Ht. assert (is_hasher c t) as Hht.
    { unfold hasher_tids in Ht. apply in_map_iff in Ht as (i & <- & Hi). apply in_seq in Hi. unfold is_hasher, hasher_tid. lia. }
    destruct (in_dec Z.eq_dec t (s_tracked s)) as [Hin|Hnin].
    - apply (t_jclosed c s I); [right; exact Hj|exact Hin].
    - apply (t_untracked c s I); assumption. }
  induction (hasher_tids (cf_hashers c)) as [|t r IHr]; [reflexivity|].
  cbn [filter]. rewrite Hh by (left; reflexivity). apply IHr. intros x Hx. apply Hh. right. exact Hx.
Qed.
