(* LastCallVerify.v -- C12, unbounded: a VERIFICATION run with a progress callback that returns
   True has made its last report with done = total, whatever the schedule, the number of hashers,
   the reporting interval and the clock. *)
From Coq Require Import Lia ZifyBool Permutation.
From Torf Require Import Base Pipeline PipelineProofs Tree OrderProofs FlowProofs LastCallProofs VerifyTrueProofs.
Open Scope Z_scope.

Lemma collect_item_LInv_verify c s idx h exc :
  has_user_cb c = true -> cf_verify c <> None -> LInv c (collect_item c s idx h exc).
Proof.
  intros Hcb Hv. unfold LInv.
  pose proof (collect_item_not_clock c s idx h exc) as Hnc.
  assert (Hgoal : cf_total c <= zlen (s_seen (collect_item c s idx h exc)) -> s_seen (collect_item c s idx h exc) <> [] -> last_done_is (collect_item c s idx h exc)).
  { intros Htot _. rewrite collect_item_seen in Htot.
    assert (Hge : zlen (s_seen s) >= cf_total c) by lia.
    destruct (collect_item_forced c s idx h exc Hcb (or_introl Hv) (or_intror (or_introl Hge))) as (e & es & Ec).
    unfold last_done_is. rewrite collect_item_seen, Ec. apply last_of_batch. }
  destruct (s_mpc (collect_item c s idx h exc)) eqn:Em; try exact Hgoal. exact I.
Qed.

Lemma step_main_LInv_verify c s inc :
  has_user_cb c = true -> cf_verify c <> None -> LInv c s -> LInv c (step_main c s inc).
Proof.
  intros Hcb Hv Hl. unfold step_main. destruct (s_mpc s) eqn:Empc;
    try (apply LInv_set_mpc; [discriminate|rewrite Empc; discriminate|exact Hl]).
  - destruct (refused c t).
    + destruct ((t =? 1) || (t =? 2) || (t =? 3)).
      * unfold LInv in *. rewrite Empc in Hl. cbn [finish_main s_mpc s_seen s_calls]. exact Hl.
      * destruct (next_to_start c t); apply LInv_set_mpc; try discriminate; try (rewrite Empc; discriminate); exact Hl.
    + assert (Hst : LInv c (start_thread s t)) by (apply (LInv_of_lview c s); [apply cview_lview; apply start_thread_cview|exact Hl]).
      assert (Hm : forall i h e, s_mpc (start_thread s t) <> MClock i h e).
      { intros i h e. pose proof (start_thread_cview s t) as Ev. unfold cview in Ev. injection Ev as _ _ E3 _. rewrite E3, Empc. discriminate. }
      destruct (next_to_start c t); apply LInv_set_mpc; try discriminate; assumption.
  - destruct (s_hq s) as [|[|idx h exc] r] eqn:Ehq; [exact Hl| |].
    + apply LInv_set_mpc; [discriminate|cbn; rewrite Empc; discriminate|]. apply (LInv_of_lview c s); [reflexivity|exact Hl].
    + destruct (existsb (Z.eqb idx) (s_seen (set_hq s r))).
      * apply LInv_set_mpc; [discriminate|cbn; rewrite Empc; discriminate|]. apply (LInv_of_lview c s); [reflexivity|exact Hl].
      * unfold LInv. cbn [set_mpc s_mpc]. exact I.
  - apply collect_item_LInv_verify; assumption.
  - destruct (s_stop s); [destruct a|]; apply LInv_set_mpc; try discriminate; try (rewrite Empc; discriminate); exact Hl.
  - assert (Hs : LInv c (set_stop s true)) by (apply (LInv_of_lview c s); [reflexivity|exact Hl]).
    destruct a; apply LInv_set_mpc; try discriminate; try (cbn; rewrite Empc; discriminate); exact Hs.
  - destruct (is_alive s 1); apply LInv_set_mpc; try discriminate; try (rewrite Empc; discriminate); try exact Hl.
    unfold next_hasher. destruct (nth_error _ _); discriminate.
  - apply LInv_set_mpc; [unfold next_hasher; destruct (nth_error _ _); discriminate|rewrite Empc; discriminate|exact Hl].
  - destruct (is_alive s t); apply LInv_set_mpc; try discriminate; try (rewrite Empc; discriminate); try exact Hl.
    unfold next_hasher. destruct (nth_error _ _); discriminate.
  - apply LInv_set_mpc; [unfold next_hasher; destruct (nth_error _ _); discriminate|rewrite Empc; discriminate|exact Hl].
  - destruct (is_alive s 2); [apply LInv_set_mpc; [discriminate|rewrite Empc; discriminate|exact Hl]|].
    unfold finish. destruct o; unfold LInv in *; rewrite Empc in Hl; cbn [finish_main s_mpc s_seen s_calls]; exact Hl.
  - unfold finish. destruct o; unfold LInv in *; rewrite Empc in Hl; cbn [finish_main s_mpc s_seen s_calls]; exact Hl.
  - exact Hl.
Qed.

Theorem last_invariant_verify c s :
  has_user_cb c = true -> cf_verify c <> None -> reach c s -> LInv c s.
Proof.
  intros Hcb Hv Hr. induction Hr as [|s t a inc Hr IH Hen Hinc].
  - unfold LInv. cbn. intros _ C. exfalso. apply C. reflexivity.
  - unfold step. destruct (t =? 0); [apply step_main_LInv_verify; assumption|].
    destruct (t =? 1).
    + destruct (s_rpc s); (apply (LInv_of_lview c s); [apply cview_lview; rewrite step_reader_cview; reflexivity|exact IH]).
    + destruct (t =? 2); (apply (LInv_of_lview c s); [apply cview_lview|exact IH]); [apply step_janitor_cview|apply step_hasher_cview].
Qed.

(* C12: a verification run with a callback that returns True made its last report with done = total
   (total = the number of recorded hashes) *)
Theorem last_call_reports_total_verify c s expd :
  reach c s -> cf_verify c = Some expd -> has_user_cb c = true ->
  cf_total c = zlen expd -> zlen (yielded (cf_items c)) = cf_total c -> 0 < cf_total c ->
  s_result s = Some ResTrue ->
  exists pre idx e, s_calls s = pre ++ [(cf_total c, idx, e)].
Proof.
  intros Hr Hv Hcb Htot HY Hpos Hres.
  pose proof (flow_invariant c s Hr) as Hf.
  destruct (verify_result_invariant c s Hr) as [Hdone Hsorted]. specialize (Hsorted Hres expd Hv).
  pose proof (last_invariant_verify c s Hcb ltac:(rewrite Hv; discriminate) Hr) as Hl. unfold LInv in Hl.
  assert (Hmpc : s_mpc s = MDone) by (apply Hdone; rewrite Hres; discriminate). rewrite Hmpc in Hl.
  assert (Hlen_h : zlen (s_hashes s) = cf_total c).
  { rewrite Htot, <- Hsorted. rewrite sorted_hashes_isort. unfold zlen. rewrite map_length.
    rewrite (Permutation_length (isort_perm (fun p : Z * Z => p) pair_ltb (s_hashes s))). reflexivity. }
  assert (Hge : cf_total c <= zlen (s_seen s)).
  { pose proof (fi_hnodup c s Hf) as Hnd. pose proof (fi_hashes c s Hf) as Hh.
    assert (Hincl : incl (map fst (s_hashes s)) (s_seen s)).
    { intros i Hi. apply in_map_iff in Hi as (p & <- & Hp). rewrite Forall_forall in Hh. exact (proj1 (Hh p Hp)). }
    pose proof (NoDup_incl_length Hnd Hincl) as Hlen. rewrite map_length in Hlen. unfold zlen in *. lia. }
  assert (Hle : zlen (s_seen s) <= cf_total c).
  { pose proof (fi_nodup c s Hf) as Hnd. pose proof (fi_bound c s Hf) as Hb. pose proof (fi_ridx c s Hf) as Hri.
    unfold indices in *. apply NoDup_app_r in Hnd. apply Forall_app in Hb as [_ Hb].
    pose proof (NoDup_bounded_length (s_seen s) (s_ridx s) (proj1 Hri) Hnd Hb). lia. }
  assert (Hne : s_seen s <> []) by (intros E; rewrite E in Hge; unfold zlen in Hge; cbn in Hge; lia).
  destruct (Hl Hge Hne) as (pre & idx & e & Ec). exists pre, idx, e. rewrite Ec. repeat f_equal. lia.
Qed.
