(* ConservationProofs.v -- C03/C04, unbounded: no piece is ever lost between the reader and the collector.
   In every reachable state (any schedule, hasher count, input, callback plan, fault, clock) the pieces the
   reader has handed over so far are, each exactly once, in the piece queue, in the hands of a hasher, in the
   hash queue or with the collector: [indices s] is a permutation of 0 .. s_ridx s - 1. *)
From Coq Require Import Lia ZifyBool Permutation.
From Torf Require Import Base Pipeline PipelineProofs FlowProofs ThreadProofs DeadlockProofs.
Open Scope Z_scope.

Definition qn (l : list qitem) : nat := length (flat_map qidx l).
Definition hw (h : tstate * hpc) : nat := qn (held_item h).
Fixpoint hn (hs : list (tstate * hpc)) : nat := match hs with [] => 0%nat | h :: r => (hw h + hn r)%nat end.
Definition cnt (s : state) : nat := (qn (s_pq s) + hn (s_hs s) + qn (s_hq s) + length (s_seen s))%nat.

Lemma qn_app a b : qn (a ++ b) = (qn a + qn b)%nat.
Proof. unfold qn. rewrite flat_map_app, app_length. reflexivity. Qed.

Lemma hn_flat hs : qn (flat_map held_item hs) = hn hs.
Proof. induction hs as [|h r IH]; [reflexivity|]. cbn [flat_map hn]. rewrite qn_app, IH. reflexivity. Qed.

Lemma cnt_indices s : length (indices s) = cnt s.
Proof.
  unfold indices, flight, cnt. rewrite app_length. fold (qn (s_pq s ++ flat_map held_item (s_hs s) ++ s_hq s)).
  rewrite !qn_app, hn_flat. lia.
Qed.

Lemma hn_set_nth l : forall i x old, nth_error l i = Some old -> (hn (set_nth l i x) + hw old = hn l + hw x)%nat.
Proof.
  induction l as [|y l IH]; intros i x old Hn; [destruct i; discriminate Hn|].
  destruct i as [|i]; cbn [nth_error] in Hn.
  - injection Hn as ->. cbn [set_nth hn]. lia.
  - cbn [set_nth hn]. pose proof (IH i x old Hn). lia.
Qed.

Lemma set_nth_none {X} (l : list X) : forall i x, nth_error l i = None -> set_nth l i x = l.
Proof.
  induction l as [|y l IH]; intros [|i] x E; cbn in *; try discriminate; try reflexivity. f_equal. apply IH. exact E.
Qed.

(* a hasher that is not running holds nothing *)
Definition idle_ok (hs : list (tstate * hpc)) : Prop := Forall (fun h => fst h <> TRunning -> held_item h = []) hs.

Lemma idle_set_nth l : forall i st pc, idle_ok l -> (st = TRunning \/ held_item (st, pc) = []) -> idle_ok (set_nth l i (st, pc)).
Proof.
  induction l as [|y l IH]; intros i st pc H Hx; [destruct i; constructor|].
  inversion H as [|? ? Hy Hl]; subst. destruct i as [|i]; cbn [set_nth]; constructor.
  - cbn [fst]. intros Hne. destruct Hx as [->|E]; [contradiction|exact E].
  - exact Hl.
  - exact Hy.
  - apply IH; assumption.
Qed.

Lemma idle_nth l i st pc : idle_ok l -> nth_error l i = Some (st, pc) -> st <> TRunning -> hw (st, pc) = 0%nat.
Proof.
  intros H Hn Hne. unfold idle_ok in H. rewrite Forall_forall in H.
  unfold hw. rewrite (H (st, pc) (nth_error_In _ _ Hn) Hne). reflexivity.
Qed.

Definition CInv (s : state) : Prop := Z.of_nat (cnt s) = s_ridx s /\ idle_ok (s_hs s).

Lemma CInv_of_view s s' :
  s_pq s' = s_pq s -> s_hs s' = s_hs s -> s_hq s' = s_hq s -> s_seen s' = s_seen s -> s_ridx s' = s_ridx s ->
  CInv s -> CInv s'.
Proof. unfold CInv, cnt. intros -> -> -> -> ->. auto. Qed.

Lemma qn_closed : qn [QClosed] = 0%nat. Proof. reflexivity. Qed.
Lemma qn_piece i h e r : qn (QPiece i h e :: r) = S (qn r). Proof. reflexivity. Qed.
Lemma qn_closed_cons r : qn (QClosed :: r) = qn r. Proof. reflexivity. Qed.

(* ---- janitor ---- *)
Lemma step_janitor_CInv s a : CInv s -> CInv (step_janitor s a).
Proof.
  intros Hinv. unfold step_janitor. destruct (s_jpc s) as [|[|t r]|[|t r]| |];
    try (apply (CInv_of_view s); [reflexivity..|exact Hinv]).
  - destruct a; destruct (s_tracked s); apply (CInv_of_view s); try reflexivity; exact Hinv.
  - destruct (is_alive s t); [|destruct r]; apply (CInv_of_view s); try reflexivity; exact Hinv.
  - destruct r; apply (CInv_of_view s); try reflexivity; exact Hinv.
  - destruct Hinv as [Hc Hi]. split; [|exact Hi]. unfold cnt in *. cbn [upd_janitor set_hq s_pq s_hs s_hq s_seen s_ridx].
    rewrite qn_app, qn_closed. lia.
Qed.

(* ---- hashers ---- *)
Lemma step_hasher_CInv s i a : CInv s -> CInv (step_hasher s i a).
Proof.
  intros [Hc Hi]. unfold step_hasher. destruct (nth_error (s_hs s) i) as [[st pc]|] eqn:En; [|split; assumption].
  destruct st; try (split; assumption).
  pose proof (hn_set_nth (s_hs s) i) as Hset.
  destruct pc as [|it| | |].
  - (* HGet *)
    destruct a.
    + destruct (s_pq s) as [|[|idx h exc] r] eqn:Epq; [split; assumption| |].
      * split; [|unfold upd_hasher; cbn [set_hs set_pq s_hs]; apply idle_set_nth; auto].
        unfold cnt in *. unfold upd_hasher. cbn [set_hs set_pq s_pq s_hs s_hq s_seen s_ridx].
        pose proof (Hset (TRunning, HRequeue) _ En) as E. unfold hw in E. cbn [held_item snd qn flat_map length] in E.
        rewrite Epq, qn_closed_cons in Hc. lia.
      * split; [|unfold upd_hasher; cbn [set_hs set_pq s_hs]; apply idle_set_nth; auto].
        unfold cnt in *. unfold upd_hasher. cbn [set_hs set_pq s_pq s_hs s_hq s_seen s_ridx].
        match goal with |- context [HPutHash ?o] => pose proof (Hset (TRunning, HPutHash o) _ En) as E end.
        unfold hw in E. cbn [held_item snd] in E.
        rewrite Epq, qn_piece in Hc. destruct exc; cbn [qn flat_map qidx app length] in E; lia.
    + destruct (Nat.eqb i 0).
      * apply (CInv_of_view s); try reflexivity. split; assumption.
      * split; [|unfold upd_hasher; cbn [set_hs set_now s_hs]; apply idle_set_nth; auto].
        unfold cnt in *. unfold upd_hasher. cbn [set_hs set_now s_pq s_hs s_hq s_seen s_ridx].
        pose proof (Hset (TDone, HExit) _ En) as E. unfold hw in E. cbn [held_item snd qn flat_map length] in E. lia.
  - (* HPutHash *)
    split; [|unfold upd_hasher; cbn [set_hs set_hq s_hs]; apply idle_set_nth; auto].
    unfold cnt in *. unfold upd_hasher. cbn [set_hs set_hq s_pq s_hs s_hq s_seen s_ridx].
    pose proof (Hset (TRunning, HGet) _ En) as E. unfold hw in E. cbn [held_item snd] in E.
    rewrite qn_app. change (qn []) with 0%nat in E. lia.
  - (* HRequeue *)
    split; [|unfold upd_hasher; cbn [set_hs set_pq s_hs]; apply idle_set_nth; auto].
    unfold cnt in *. unfold upd_hasher. cbn [set_hs set_pq s_pq s_hs s_hq s_seen s_ridx].
    pose proof (Hset (TRunning, HSet) _ En) as E. unfold hw in E. cbn [held_item snd qn flat_map length] in E.
    rewrite qn_app, qn_closed. lia.
  - (* HSet *)
    split; [|unfold upd_hasher; cbn [set_hs set_final s_hs]; apply idle_set_nth; auto].
    unfold cnt in *. unfold upd_hasher. cbn [set_hs set_final s_pq s_hs s_hq s_seen s_ridx].
    pose proof (Hset (TDone, HExit) _ En) as E. unfold hw in E. cbn [held_item snd qn flat_map length] in E. lia.
  - split; assumption.
Qed.

(* ---- reader ---- *)
Lemma reader_next_CInv s0 s todo idx :
  cnt s = cnt s0 -> s_hs s = s_hs s0 -> CInv s0 -> idx = s_ridx s0 -> CInv (reader_next s todo idx).
Proof.
  intros Hc Hh [H0 Hi] ->. pose proof (reader_next_fields s todo (s_ridx s0)) as Hf. cbv zeta in Hf.
  destruct Hf as (F1 & _ & F3 & F4 & F5 & F6 & _). split.
  - unfold cnt in *. rewrite F1, F3, F4, F5, F6. lia.
  - rewrite F4, Hh. exact Hi.
Qed.

Lemma step_reader_CInv c s : FInv c s -> CInv s -> CInv (step_reader s).
Proof.
  intros Hf Hinv. unfold step_reader. destruct (s_rpc s) as [|it| |exc|] eqn:Erpc.
  - destruct (s_stop s); [apply (CInv_of_view s); try reflexivity; exact Hinv|].
    destruct (s_rtodo s) as [|[h|es| | |e] rest]; apply (CInv_of_view s); try reflexivity; exact Hinv.
  - (* piece_queue.put(piece) *)
    destruct (fi_put c s Hf it Erpc) as (r & rest & h & exc & _ & _ & -> & _).
    destruct Hinv as [H0 Hi].
    pose proof (reader_next_fields (set_pq s (s_pq s ++ [QPiece (s_ridx s) h exc])) (tl (s_rtodo s)) (s_ridx s + 1)) as Hn. cbv zeta in Hn.
    destruct Hn as (F1 & _ & F3 & F4 & F5 & F6 & _). split.
    + unfold cnt in *. rewrite F1, F3, F4, F5, F6. cbn [set_pq s_pq s_hs s_hq s_seen]. rewrite qn_app.
      change (qn [QPiece (s_ridx s) h exc]) with 1%nat. lia.
    + rewrite F4. exact Hi.
  - (* _handle_oom *)
    destruct (s_now s - s_memts s >=? 100).
    + destruct (negb (_ =? _)).
      * apply (reader_next_CInv s); [reflexivity|reflexivity|exact Hinv|reflexivity].
      * apply (CInv_of_view s); try reflexivity; exact Hinv.
    + apply (reader_next_CInv s); [reflexivity|reflexivity|exact Hinv|reflexivity].
  - destruct Hinv as [H0 Hi]. split; [|exact Hi]. unfold cnt in *. cbn [upd_reader set_pq s_pq s_hs s_hq s_seen s_ridx].
    rewrite qn_app, qn_closed. lia.
  - exact Hinv.
Qed.

(* ---- main ---- *)
Lemma start_thread_CInv c s t :
  FInv c s -> DInv c s -> s_mpc s = MStart t -> CInv s -> CInv (start_thread s t).
Proof.
  intros Hf Hd Hm Hinv. unfold start_thread. destruct (t =? 1) eqn:E1.
  - assert (t = 1) as -> by lia.
    destruct (fi_start c s Hf 1 (or_intror Hm)) as [_ Hnew]. destruct (fi_new c s Hf (Hnew eq_refl)) as [Er _].
    apply (reader_next_CInv s); [reflexivity|reflexivity|exact Hinv|symmetry; exact Er].
  - destruct (t =? 2) eqn:E2; [apply (CInv_of_view s); try reflexivity; exact Hinv|].
    unfold upd_hasher. destruct (nth_error (s_hs s) (hasher_index t)) as [[st pc]|] eqn:En.
    + assert (st = TNew) as ->.
      { apply (d_unstarted c s Hd t (or_intror Hm) ltac:(lia) (hasher_index t) st pc); [right; lia|exact En]. }
      destruct Hinv as [H0 Hi]. split.
      * unfold cnt in *. cbn [set_hs s_pq s_hs s_hq s_seen s_ridx].
        pose proof (hn_set_nth (s_hs s) (hasher_index t) (TRunning, HGet) _ En) as E.
        rewrite (idle_nth _ _ _ _ Hi En ltac:(discriminate)) in E. change (hw (TRunning, HGet)) with 0%nat in E. lia.
      * cbn [set_hs s_hs]. apply idle_set_nth; auto.
    + rewrite (set_nth_none _ _ _ En). apply (CInv_of_view s); try reflexivity; exact Hinv.
Qed.

Lemma step_main_CInv c s inc : reach c s -> FInv c s -> DInv c s -> CInv s -> CInv (step_main c s inc).
Proof.
  intros Hr Hf Hd Hinv. unfold step_main. destruct (s_mpc s) eqn:Empc;
    try (apply (CInv_of_view s); [reflexivity..|exact Hinv]).
  - (* MStart *)
    destruct (refused c t).
    + destruct ((t =? 1) || (t =? 2) || (t =? 3)); [apply (CInv_of_view s); try reflexivity; exact Hinv|].
      destruct (next_to_start c t); apply (CInv_of_view s); try reflexivity; exact Hinv.
    + pose proof (start_thread_CInv c s t Hf Hd Empc Hinv) as Hs.
      destruct (next_to_start c t); apply (CInv_of_view (start_thread s t)); try reflexivity; exact Hs.
  - (* hash_queue.get() *)
    destruct (s_hq s) as [|[|idx h exc] r] eqn:Ehq; [exact Hinv| |].
    + destruct Hinv as [H0 Hi]. split; [|exact Hi]. unfold cnt in *. cbn [set_mpc set_hq s_pq s_hs s_hq s_seen s_ridx].
      rewrite Ehq, qn_closed_cons in H0. exact H0.
    + pose proof (no_piece_twice c s idx h exc r Hr Ehq) as Hns.
      cbn [set_hq s_seen].
      destruct (existsb (Z.eqb idx) (s_seen s)) eqn:Eex.
      { exfalso. apply existsb_exists in Eex as (x & Hx & Ex). apply Hns. replace idx with x by lia. exact Hx. }
      destruct Hinv as [H0 Hi]. split; [|exact Hi]. unfold cnt in *.
      cbn [set_mpc upd_collector set_hq s_pq s_hs s_hq s_seen s_ridx]. rewrite Ehq, qn_piece in H0. rewrite app_length. cbn [length]. lia.
  - (* the collector handles the item *)
    destruct (collect_item_fview c (set_now s (s_now s + inc)) idx h exc) as [E _].
    injection E as E1 _ _ _ E5 E6 E7 E8 _.
    apply (CInv_of_view s); try assumption.
  - destruct (s_stop s); [destruct a|]; apply (CInv_of_view s); try reflexivity; exact Hinv.
  - destruct a; apply (CInv_of_view s); try reflexivity; exact Hinv.
  - destruct (is_alive s 1); apply (CInv_of_view s); try reflexivity; exact Hinv.
  - destruct (is_alive s t); apply (CInv_of_view s); try reflexivity; exact Hinv.
  - destruct (is_alive s 2); [apply (CInv_of_view s); try reflexivity; exact Hinv|].
    unfold finish. destruct o; apply (CInv_of_view s); try reflexivity; exact Hinv.
  - unfold finish. destruct o; apply (CInv_of_view s); try reflexivity; exact Hinv.
Qed.

Lemma CInv_init c : CInv (init c).
Proof.
  split.
  - unfold cnt. cbn. replace (hn (map (fun _ : nat => (TNew, HGet)) (seq 0 (cf_hashers c)))) with 0%nat; [reflexivity|].
    induction (seq 0 (cf_hashers c)); [reflexivity|cbn; assumption].
  - cbn. unfold idle_ok. induction (seq 0 (cf_hashers c)); cbn; constructor; [reflexivity|assumption].
Qed.

Theorem conservation_invariant c s : (1 <= cf_hashers c)%nat -> reach c s -> CInv s.
Proof.
  intros Hn. induction 1 as [|s t a inc Hr IH Hen Hinc]; [apply CInv_init|].
  pose proof (flow_invariant c s Hr) as Hf. pose proof (deadlock_invariant c s Hn Hr) as Hd.
  unfold step. destruct (t =? 0); [apply step_main_CInv; assumption|].
  destruct (t =? 1).
  - destruct (s_rpc s) eqn:Erpc; try (apply (step_reader_CInv c); assumption).
    apply (step_reader_CInv c); [apply (FInv_of_fview c s); [reflexivity|exact Hf]|apply (CInv_of_view s); try reflexivity; exact IH].
  - destruct (t =? 2); [apply step_janitor_CInv; exact IH|apply step_hasher_CInv; exact IH].
Qed.

(* no piece is lost: every piece the reader has handed over is, exactly once, in a queue, with a hasher or collected *)
Theorem no_piece_lost c s : (1 <= cf_hashers c)%nat -> reach c s ->
  Permutation (indices s) (map Z.of_nat (seq 0 (Z.to_nat (s_ridx s)))).
Proof.
  intros Hn Hr. destruct (conservation_invariant c s Hn Hr) as [Hc _]. pose proof (flow_invariant c s Hr) as Hf.
  rewrite <- cnt_indices in Hc.
  apply NoDup_Permutation_bis.
  - exact (fi_nodup c s Hf).
  - rewrite map_length, seq_length. lia.
  - intros i Hi. pose proof (fi_bound c s Hf) as Hb. rewrite Forall_forall in Hb. specialize (Hb i Hi).
    apply in_map_iff. exists (Z.to_nat i). split; [lia|]. apply in_seq. lia.
Qed.
