(* ExportProofs.v -- C17: a failed or refused export leaves no trace (effects of
   write / write_stream, in the order regenerated from the source). *)
From Coq Require Import Lia.
From Torf Require Import Base Bencode PyVal Extracted Convert Validate Export.
Open Scope Z_scope.

Section Exp.
Variable is_url : bytes -> bool.

Lemma write_refused fs v md t :
  target_exists t = true -> write is_url fs false v md t = (Err DWrite, t).
Proof. intros H. unfold write. cbn [ex_write_steps]. cbn [negb andb]. rewrite H. reflexivity. Qed.

Lemma write_failed_export fs ow v md t e :
  dump is_url fs v md = Err e -> exists e', write is_url fs ow v md t = (Err e', t).
Proof.
  intros H. unfold write. cbn [ex_write_steps].
  destruct (negb ow && target_exists t); [eexists; reflexivity|].
  rewrite H. eexists; reflexivity.
Qed.

Lemma write_cannot_open fs ow v md t :
  (t = TDir \/ exists x, t = TNoPerm x) -> exists e', write is_url fs ow v md t = (Err e', t).
Proof.
  intros H. unfold write. cbn [ex_write_steps].
  destruct (negb ow && target_exists t); [eexists; reflexivity|].
  destruct (dump is_url fs v md); [|eexists; reflexivity].
  destruct H as [->|[x ->]]; eexists; reflexivity.
Qed.

Lemma write_success fs ow v md t t' :
  write is_url fs ow v md t = (Ok tt, t') ->
  exists c, dump is_url fs v md = Ok c /\ t' = TFile c /\ (ow = true \/ target_exists t = false).
Proof.
  unfold write. cbn [ex_write_steps].
  destruct (negb ow && target_exists t) eqn:E; [discriminate|].
  destruct (dump is_url fs v md) as [c|e]; [|discriminate].
  intros H. exists c. split; [reflexivity|].
  destruct t; inversion H; subst; (split; [reflexivity|]);
    destruct ow; auto; cbn in E; right; try reflexivity; try discriminate.
Qed.

Lemma write_any_failure_no_trace fs ow v md t r t' :
  write is_url fs ow v md t = (r, t') -> r <> Ok tt -> t' = t.
Proof.
  unfold write. cbn [ex_write_steps].
  destruct (negb ow && target_exists t); [intros H; inversion H; reflexivity|].
  destruct (dump is_url fs v md) as [c|e]; [|intros H; inversion H; reflexivity].
  destruct t; intros H Hr; inversion H; subst; try reflexivity; contradiction.
Qed.

Lemma write_stream_failed_export fs v md s e :
  dump is_url fs v md = Err e -> write_stream is_url fs v md s = (Err e, s).
Proof. intros H. unfold write_stream. cbn [ex_write_stream_steps]. rewrite H. reflexivity. Qed.

Lemma write_stream_cases fs v md s r s' :
  write_stream is_url fs v md s = (r, s') ->
  (exists e, dump is_url fs v md = Err e /\ r = Err e /\ s' = s) \/
  (exists c, dump is_url fs v md = Ok c /\
     ((r = Ok tt /\
       ss_content s' = (if ss_seekable s then c else write_at (ss_content s) (ss_pos s) c) /\
       ss_pos s' = (if ss_seekable s then 0 else ss_pos s) + Z.of_nat (length c)) \/
      (r = Err DWrite /\ ss_fail s = true /\
       ss_content s' = (if ss_seekable s then [] else ss_content s)))).
Proof.
  unfold write_stream. cbn [ex_write_stream_steps].
  destruct (dump is_url fs v md) as [c|e]; [|intros H; inversion H; left; eexists; auto].
  intros H. right. exists c. split; [reflexivity|].
  destruct (ss_seekable s) eqn:Es; cbn [ss_seekable ss_fail ss_content ss_pos] in H.
  - destruct (ss_fail s) eqn:Ef; inversion H; subst; cbn [ss_content ss_pos]; [right; auto|left].
    split; [reflexivity|]. split; [|reflexivity].
    unfold write_at. cbn [Z.to_nat firstn length Nat.sub repeat app Nat.add]. rewrite skipn_nil, app_nil_r. reflexivity.
  - destruct (ss_fail s) eqn:Ef; inversion H; subst; cbn [ss_content ss_pos]; auto.
Qed.

(* whatever a seekable stream held before, and wherever its position was, a successful export leaves
   exactly the dumped bytes in it *)
Lemma write_stream_seekable_exact fs v md s s' :
  ss_seekable s = true -> write_stream is_url fs v md s = (Ok tt, s') ->
  exists c, dump is_url fs v md = Ok c /\ ss_content s' = c.
Proof.
  intros Hs H. destruct (write_stream_cases fs v md s (Ok tt) s' H) as [(e & _ & E & _)|(c & Hd & [(_ & Hc & _)|(E & _)])]; try discriminate E.
  exists c. split; [exact Hd|]. rewrite Hs in Hc. exact Hc.
Qed.

(* a stream that is not seekable and appends (position = end of what it already holds) keeps its content
   and gets the dumped bytes after it *)
Lemma write_at_end old c : write_at old (Z.of_nat (length old)) c = old ++ c.
Proof.
  unfold write_at. rewrite Nat2Z.id, firstn_all, Nat.sub_diag. cbn [repeat app].
  rewrite skipn_all2 by lia. rewrite app_nil_r. reflexivity.
Qed.

End Exp.
