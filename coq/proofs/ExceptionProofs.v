(* ExceptionProofs.v -- C04, unbounded: an exception only for the right reason.  Whatever a call raises is the
   exception raised by the user's callback, an exception carried by an item of the content, the content error of
   a verification, the read error the iterator raised, or the out-of-memory read error -- for every schedule,
   hasher count, input, callback plan and clock.  (The collector's internal assertion is shown unreachable.) *)
From Coq Require Import Lia ZifyBool.
From Torf Require Import Base Pipeline PipelineProofs FlowProofs ThreadProofs DrainProofs ReaderDoneProofs.
Open Scope Z_scope.

Section Exc.
Variable c : config.

(* errors of the reader thread itself *)
Definition okr (e : Z) : Prop := In (RFail e) (cf_items c) \/ (e = 12 /\ In ROom (cf_items c)).

Definition just (e : Z) : Prop :=
  (e = -1 /\ exists k, cf_plan c = CbRaiseFrom k) \/                               (* the user's callback raised *)
  (e = 1000 /\ cf_verify c <> None) \/                                             (* content error of a verification *)
  (exists i es, nth_error (yielded (cf_items c)) i = Some (RExc es) /\ In e es) \/  (* carried by an item *)
  okr e.

Definition suffix (todo : list rev) : Prop := exists pre, cf_items c = pre ++ todo.

Lemma suffix_tl todo : suffix todo -> suffix (tl todo).
Proof. intros [pre E]. destruct todo as [|x r]; [exists pre; exact E|]. exists (pre ++ [x]). rewrite <- app_assoc. exact E. Qed.

Lemma suffix_in todo x : suffix todo -> In x todo -> In x (cf_items c).
Proof. intros [pre E] H. rewrite E. apply in_or_app. right. exact H. Qed.

(* ---- the reader ---- *)
Definition RQ (s : state) : Prop :=
  suffix (s_rtodo s) /\ (forall e, s_rpc s = RPutClosed (Some e) -> okr e) /\ (forall e, s_rexc s = Some e -> okr e).

Lemma RQ_keep s s' : s_rtodo s' = s_rtodo s -> s_rpc s' = s_rpc s -> s_rexc s' = s_rexc s -> RQ s -> RQ s'.
Proof. unfold RQ. intros -> -> ->. auto. Qed.

Lemma suffix_nil : suffix [].
Proof. exists (cf_items c). rewrite app_nil_r. reflexivity. Qed.

Lemma reader_next_RQ s todo idx : suffix todo -> (forall e, s_rexc s = Some e -> okr e) -> RQ (reader_next s todo idx).
Proof.
  intros Hs He. unfold reader_next. destruct todo as [|[h|es| | |e] rest]; (split; [|split]); cbn; try exact He; try exact Hs; try apply suffix_nil; try discriminate.
  intros e0 E. injection E as <-. left. apply (suffix_in _ _ Hs). left. reflexivity.
Qed.

Lemma step_reader_RQ s : FInv c s -> RQ s -> RQ (step_reader s).
Proof.
  intros Hf (A & B & C). unfold step_reader. destruct (s_rpc s) as [|it| |exc|] eqn:Erpc.
  - destruct (s_stop s); [split; [apply suffix_nil|split; cbn; [discriminate|exact C]]|].
    destruct (s_rtodo s) as [|[h|es| | |e] rest]; (split; [exact A|split; cbn; [discriminate|exact C]]).
  - apply reader_next_RQ; [apply suffix_tl; exact A|exact C].
  - destruct (s_now s - s_memts s >=? 100).
    + destruct (negb (_ =? _)); [apply reader_next_RQ; [apply suffix_tl; exact A|exact C]|].
      split; [apply suffix_nil|split; cbn; [intros e E; injection E as <-; right; split; [reflexivity|]|exact C]].
      destruct (fi_clock c s Hf Erpc) as (rest & Et). apply (suffix_in _ _ A). rewrite Et. left. reflexivity.
    + apply reader_next_RQ; [apply suffix_tl; exact A|exact C].
  - split; [apply suffix_nil|split; cbn; [discriminate|]]. intros e ->. apply B. reflexivity.
  - unfold RQ. rewrite Erpc. repeat split; assumption.
Qed.

(* ---- main: the outcome it carries ---- *)
Definition out_of (pc : mpc) : option outcome :=
  match pc with
  | MStopRead (AFinal o) | MStopWrite (AFinal o) | MRJoinAlive o | MRJoin o | MHJoinAlive o _ _ | MHJoin o _ _ | MJJoinAlive o | MJJoin o => Some o
  | _ => None
  end.

Definition Q (s : state) : Prop :=
  (forall e, out_of (s_mpc s) = Some (ORaise e) -> just e) /\
  (forall idx h exc, s_mpc s = MClock idx h exc -> payload_ok (yielded (cf_items c)) (QPiece idx h exc)) /\
  (forall e, s_result s = Some (ResRaise e) -> just e).

Lemma Q_keep s s' : s_mpc s' = s_mpc s -> s_result s' = s_result s -> Q s -> Q s'.
Proof. unfold Q. intros -> ->. auto. Qed.

Lemma Q_to s pc : (forall e, out_of pc = Some (ORaise e) -> just e) -> (forall idx h exc, pc <> MClock idx h exc) -> Q s -> Q (set_mpc s pc).
Proof. intros A B (_ & _ & C). split; [exact A|]. split; cbn [set_mpc s_mpc s_result]; [intros idx h exc E; exfalso; exact (B idx h exc E)|exact C]. Qed.

Lemma out_of_next_hasher s o pos : out_of (next_hasher s o pos) = Some o.
Proof. unfold next_hasher. destruct (nth_error (s_tracked s) pos); reflexivity. Qed.

Lemma next_hasher_not_clock s o pos idx h exc : next_hasher s o pos <> MClock idx h exc.
Proof. unfold next_hasher. destruct (nth_error (s_tracked s) pos); discriminate. Qed.

(* what the collector can raise when it handles an item *)
Lemma user_cb_raises d : user_cb c d = Some true -> exists k, cf_plan c = CbRaiseFrom k.
Proof. unfold user_cb. destruct (cf_plan c) as [| |k|k]; try discriminate; [destruct (_ >=? _); discriminate|intros _; exists k; reflexivity]. Qed.

Lemma collect_item_raise s idx h exc e :
  s_mpc (collect_item c s idx h exc) = MStopRead (AFinal (ORaise e)) ->
  (e = -1 /\ exists k, cf_plan c = CbRaiseFrom k) \/ In e exc \/ (e = 1000 /\ cf_verify c <> None).
Proof.
  unfold collect_item. destruct (_ || _); [|cbn; discriminate].
  destruct (cf_verify c) eqn:Ev; destruct exc as [|e0 r]; destruct (has_user_cb c); try destruct (mismatch c idx h);
    try (destruct (user_cb c (zlen (s_seen s))) as [[|]|] eqn:Eu);
    cbn; intros E; try discriminate E; injection E as <-;
    try (left; split; [reflexivity|exact (user_cb_raises _ Eu)]);
    try (right; left; left; reflexivity); right; right; (split; [reflexivity|discriminate]).
Qed.

Lemma collect_item_result_same s idx h exc : s_result (collect_item c s idx h exc) = s_result s.
Proof. destruct (collect_item_result c s idx h exc) as [E _]. exact E. Qed.
End Exc.

Lemma just_of_payload c idx h exc e :
  payload_ok (yielded (cf_items c)) (QPiece idx h exc) -> In e exc -> just c e.
Proof.
  cbn [payload_ok]. intros [_ H] Hin. destruct (nth_error (yielded (cf_items c)) (Z.to_nat idx)) as [[x|es| | |e0]|] eqn:En; try contradiction.
  - destruct H as [_ ->]. destruct Hin.
  - destruct H as [_ ->]. right. right. left. exists (Z.to_nat idx), es. split; assumption.
  - destruct H as [_ ->]. destruct Hin.
Qed.

Lemma step_main_Q c s inc : FInv c s -> RQ c s -> Q c s -> Q c (step_main c s inc).
Proof.
  intros Hf (_ & _ & HR) HQ. pose proof HQ as (Q1 & Q2 & Q3). unfold step_main. destruct (s_mpc s) eqn:Empc.
  - apply Q_to; [intros e E; discriminate E|discriminate|exact HQ].
  - destruct (refused c t).
    + destruct ((t =? 1) || (t =? 2) || (t =? 3)).
      * split; [cbn; intros e E; discriminate E|]. split; cbn [finish_main s_mpc s_result]; [discriminate|intros e E; discriminate E].
      * destruct (next_to_start c t); apply Q_to; try discriminate; try exact HQ; intros e E; discriminate E.
    + assert (HQs : Q c (start_thread s t)).
      { destruct (start_thread_keep s t) as (_ & _ & _ & Em & Er). apply (Q_keep c s); assumption. }
      destruct (next_to_start c t); apply Q_to; try discriminate; try exact HQs; intros e E; discriminate E.
  - destruct (s_hq s) as [|[|idx h exc] r] eqn:Ehq; [exact HQ|apply Q_to; [intros e E; discriminate E|discriminate|exact HQ]|].
    cbn [set_hq s_seen]. destruct (existsb (Z.eqb idx) (s_seen s)) eqn:Eex.
    + (* the assertion cannot fire *)
      exfalso.
      pose proof (fi_nodup c s Hf) as Hnd. unfold indices, flight in Hnd. rewrite Ehq in Hnd.
      apply existsb_exists in Eex as (x & Hx & Ex). assert (x = idx) as -> by lia.
      rewrite !flat_map_app in Hnd. cbn [flat_map qidx app] in Hnd.
      rewrite <- !app_assoc in Hnd. apply NoDup_app_r in Hnd. apply NoDup_app_r in Hnd. cbn [app] in Hnd.
      inversion Hnd as [|? ? Hni _]. apply Hni. apply in_or_app. right. exact Hx.
    + pose proof (fi_payload c s Hf) as Hpay. unfold flight in Hpay. rewrite Ehq in Hpay.
      apply Forall_app in Hpay as [_ Hrest]. apply Forall_app in Hrest as [_ Hq]. inversion Hq as [|q0 l0 Hitem _].
      split; [cbn; intros e E; discriminate E|]. split; cbn [set_mpc upd_collector set_hq s_mpc s_result]; [|exact Q3].
      intros idx' h' exc' E. injection E as <- <- <-. exact Hitem.
  - (* the collector handles the item *)
    pose proof (Q2 idx h exc eq_refl) as Hpay. set (s1 := set_now s (s_now s + inc)).
    split; [|split].
    + intros e E. destruct (collect_item_mpc c s1 idx h exc) as [Em|[Em|[e' Em]]]; rewrite Em in E; try discriminate E.
      injection E as <-. destruct (collect_item_raise c s1 idx h exc e' Em) as [[-> Hk]|[Hin|[-> Hv]]].
      * left. split; [reflexivity|exact Hk].
      * exact (just_of_payload c idx h exc e' Hpay Hin).
      * right. left. split; [reflexivity|exact Hv].
    + intros idx' h' exc' E. destruct (collect_item_mpc c s1 idx h exc) as [Em|[Em|[e' Em]]]; rewrite Em in E; discriminate E.
    + rewrite collect_item_result_same. exact Q3.
  - destruct (s_stop s); [destruct a|]; apply Q_to; try discriminate; try exact HQ; try (intros e E; discriminate E); exact Q1.
  - destruct a; apply Q_to; try discriminate; try exact HQ; try (intros e E; discriminate E); exact Q1.
  - assert (Hro : forall e, raise_of o (s_rexc s) = ORaise e -> just c e).
    { intros e E. unfold raise_of in E. destruct (s_rexc s) as [e0|] eqn:Er; [injection E as <-; right; right; right; exact (HR e0 eq_refl)|].
      subst o. apply Q1. reflexivity. }
    destruct (is_alive s 1); [apply Q_to; [exact Q1|discriminate|exact HQ]|].
    apply Q_to; [rewrite out_of_next_hasher; intros e E; injection E as E; exact (Hro e E)|intros; apply next_hasher_not_clock|exact HQ].
  - assert (Hro : forall e, raise_of o (s_rexc s) = ORaise e -> just c e).
    { intros e E. unfold raise_of in E. destruct (s_rexc s) as [e0|] eqn:Er; [injection E as <-; right; right; right; exact (HR e0 eq_refl)|].
      subst o. apply Q1. reflexivity. }
    apply Q_to; [rewrite out_of_next_hasher; intros e E; injection E as E; exact (Hro e E)|intros; apply next_hasher_not_clock|exact HQ].
  - destruct (is_alive s t); [apply Q_to; [exact Q1|discriminate|exact HQ]|].
    apply Q_to; [rewrite out_of_next_hasher; exact Q1|intros; apply next_hasher_not_clock|exact HQ].
  - apply Q_to; [rewrite out_of_next_hasher; exact Q1|intros; apply next_hasher_not_clock|exact HQ].
  - destruct (is_alive s 2); [apply Q_to; [exact Q1|discriminate|exact HQ]|].
    unfold finish. destruct o as [|e]; (split; [cbn; intros e' E; discriminate E|split; cbn [finish_main s_mpc s_result]; [discriminate|]]).
    + intros e E. unfold conclude in E. destruct (cf_verify c); cbv zeta in E; repeat match type of E with Some (if ?b then _ else _) = _ => destruct b end; discriminate E.
    + intros e' E. injection E as <-. apply Q1. reflexivity.
  - unfold finish. destruct o as [|e]; (split; [cbn; intros e' E; discriminate E|split; cbn [finish_main s_mpc s_result]; [discriminate|]]).
    + intros e E. unfold conclude in E. destruct (cf_verify c); cbv zeta in E; repeat match type of E with Some (if ?b then _ else _) = _ => destruct b end; discriminate E.
    + intros e' E. injection E as <-. apply Q1. reflexivity.
  - exact HQ.
Qed.

Lemma step_janitor_rq s a : let s' := step_janitor s a in s_rtodo s' = s_rtodo s /\ s_rpc s' = s_rpc s /\ s_rexc s' = s_rexc s.
Proof. cbv zeta. unfold step_janitor. break_match; cbn; repeat split; reflexivity. Qed.

Lemma step_hasher_rq s i a : let s' := step_hasher s i a in s_rtodo s' = s_rtodo s /\ s_rpc s' = s_rpc s /\ s_rexc s' = s_rexc s.
Proof. cbv zeta. unfold step_hasher. break_match; cbn; repeat split; reflexivity. Qed.

Lemma collect_item_rq c s idx h exc :
  s_rtodo (collect_item c s idx h exc) = s_rtodo s /\ s_rpc (collect_item c s idx h exc) = s_rpc s /\ s_rexc (collect_item c s idx h exc) = s_rexc s.
Proof.
  destruct (collect_item_fview c s idx h exc) as [E _]. injection E as _ E2 _ E4 _ _ _ _ _. repeat split; try assumption. apply collect_item_rexc.
Qed.

Lemma step_main_RQ c s inc : FInv c s -> RQ c s -> RQ c (step_main c s inc).
Proof.
  intros Hf HR. unfold step_main. destruct (s_mpc s) eqn:Empc; try (apply (RQ_keep c s); [reflexivity..|exact HR]).
  - destruct (refused c t).
    + destruct ((t =? 1) || (t =? 2) || (t =? 3)); [apply (RQ_keep c s); try reflexivity; exact HR|].
      destruct (next_to_start c t); apply (RQ_keep c s); try reflexivity; exact HR.
    + assert (Hs : RQ c (start_thread s t)).
      { unfold start_thread. destruct (t =? 1) eqn:E1.
        - assert (t = 1) as -> by lia. destruct (fi_start c s Hf 1 (or_intror Empc)) as [_ Hnew]. destruct (fi_new c s Hf (Hnew eq_refl)) as [_ Et].
          apply reader_next_RQ; [rewrite Et; exists []; reflexivity|cbn; discriminate].
        - destruct (t =? 2); apply (RQ_keep c s); try reflexivity; exact HR. }
      destruct (next_to_start c t); apply (RQ_keep c (start_thread s t)); try reflexivity; exact Hs.
  - destruct (s_hq s) as [|[|idx h exc] r]; [exact HR|apply (RQ_keep c s); try reflexivity; exact HR|].
    cbn [set_hq s_seen]. destruct (existsb _ _); apply (RQ_keep c s); try reflexivity; exact HR.
  - destruct (collect_item_rq c (set_now s (s_now s + inc)) idx h exc) as (A1 & A2 & A3). apply (RQ_keep c s); assumption.
  - destruct (s_stop s); [destruct a|]; apply (RQ_keep c s); try reflexivity; exact HR.
  - destruct a; apply (RQ_keep c s); try reflexivity; exact HR.
  - destruct (is_alive s 1); apply (RQ_keep c s); try reflexivity; exact HR.
  - destruct (is_alive s t); apply (RQ_keep c s); try reflexivity; exact HR.
  - destruct (is_alive s 2); [apply (RQ_keep c s); try reflexivity; exact HR|]. unfold finish. destruct o; apply (RQ_keep c s); try reflexivity; exact HR.
  - unfold finish. destruct o; apply (RQ_keep c s); try reflexivity; exact HR.
Qed.

Theorem exception_invariant c s : reach c s -> RQ c s /\ Q c s.
Proof.
  induction 1 as [|s t a inc Hr [IR IQ] Hen Hinc].
  - split; [split; [exists []; reflexivity|split; cbn; discriminate]|]. split; [cbn; intros e E; discriminate E|split; cbn; discriminate].
  - pose proof (flow_invariant c s Hr) as Hf.
    unfold step. destruct (t =? 0); [split; [apply step_main_RQ|apply step_main_Q]; assumption|].
    destruct (t =? 1).
    + assert (Hg : forall s0, FInv c s0 -> RQ c s0 -> s_mpc s0 = s_mpc s -> s_result s0 = s_result s -> RQ c (step_reader s0) /\ Q c (step_reader s0)).
      { intros s0 Hf0 H0 E1 E2. split; [apply step_reader_RQ; [exact Hf0|exact H0]|]. destruct (step_reader_keep s0) as (_ & _ & _ & _ & _ & A & B).
        apply (Q_keep c s); [rewrite A; exact E1|rewrite B; exact E2|exact IQ]. }
      destruct (s_rpc s) eqn:Erpc; apply Hg; try reflexivity; try exact IR; try exact Hf; try (apply (FInv_of_fview c s); [reflexivity|exact Hf]); apply (RQ_keep c s); try reflexivity; exact IR.
    + destruct (t =? 2).
      * destruct (step_janitor_rq s a) as (A1 & A2 & A3). destruct (step_janitor_keep s a) as (_ & _ & _ & _ & E5 & E6).
        split; [apply (RQ_keep c s); assumption|apply (Q_keep c s); assumption].
      * destruct (step_hasher_rq s (hasher_index t) a) as (A1 & A2 & A3). destruct (step_hasher_keep s (hasher_index t) a) as (_ & _ & _ & E4 & E5 & _).
        split; [apply (RQ_keep c s); assumption|apply (Q_keep c s); assumption].
Qed.

(* Whatever a call raises has a reason: the user's callback raised (-1), the content error of a verification (1000),
   an exception carried by an item of the content, the read error the iterator raised, or ENOMEM (12). *)
Theorem exception_only_for_a_reason c s e : reach c s -> s_result s = Some (ResRaise e) -> just c e.
Proof. intros Hr Hres. destruct (exception_invariant c s Hr) as [_ (_ & _ & Q3)]. exact (Q3 e Hres). Qed.

(* ... in particular hashing readable content without a callback never raises anything but a reader error *)
Theorem generate_raises_only_reader_errors c s e hs :
  reach c s -> cf_verify c = None -> cf_plan c = CbAbsent -> yielded (cf_items c) = map RPiece hs ->
  s_result s = Some (ResRaise e) -> okr c e.
Proof.
  intros Hr Hg Hp HY Hres. destruct (exception_only_for_a_reason c s e Hr Hres) as [E|[[_ Hv]|[(i & es & Hn & _)|E]]].
  - destruct E as [_ [k Hk]]. rewrite Hp in Hk. discriminate Hk.
  - rewrite Hg in Hv. exfalso. apply Hv. reflexivity.
  - rewrite HY, nth_error_map in Hn. destruct (nth_error hs i); discriminate Hn.
  - exact E.
Qed.

(* ... and a cancelling callback never makes a hashing run over readable content raise: without out-of-memory events and
   iterator failures the call returns a verdict (or the RuntimeError of a refused thread) *)
Theorem cancelled_generate_never_raises c s e hs k :
  reach c s -> cf_verify c = None -> cf_plan c = CbCancelFrom k -> cf_items c = map RPiece hs ->
  s_result s = Some (ResRaise e) -> False.
Proof.
  intros Hr Hg Hp Hitems Hres.
  assert (HY : yielded (cf_items c) = map RPiece hs).
  { rewrite Hitems. unfold yielded. clear. induction hs as [|x l IH]; [reflexivity|]. cbn. rewrite IH. reflexivity. }
  destruct (exception_only_for_a_reason c s e Hr Hres) as [[_ [k' Hk]]|[[_ Hv]|[(i & es & Hn & _)|[E|[_ E]]]]].
  - rewrite Hp in Hk. discriminate Hk.
  - apply Hv. exact Hg.
  - rewrite HY, nth_error_map in Hn. destruct (nth_error hs i); discriminate Hn.
  - rewrite Hitems in E. apply in_map_iff in E as (x & Ex & _). discriminate Ex.
  - rewrite Hitems in E. apply in_map_iff in E as (x & Ex & _). discriminate Ex.
Qed.
