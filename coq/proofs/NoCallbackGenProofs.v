(* NoCallbackGenProofs.v -- C04/C01, unbounded: without a callback a hashing run never returns False.  Over readable
   content a run that returns a verdict returns True with exactly the reference hashes; otherwise it raises.  Every
   schedule, hasher count, out-of-memory handling and clock. *)
From Coq Require Import Lia ZifyBool Permutation.
From Torf Require Import Base Pipeline PipelineProofs Tree OrderProofs FlowProofs ThreadProofs DeadlockProofs ConservationProofs ReaderDoneProofs
  DrainProofs ExceptionProofs LastCallProofs VerifyTrueProofs VerifyFalseProofs LastCallVerify CompleteProofs LastCallVerdict ReportProofs NoCallbackProofs.
Open Scope Z_scope.

Section NoCbGen.
Variable c : config.
Hypothesis Hplan : cf_plan c = CbAbsent.
Hypothesis Hgen : cf_verify c = None.

Lemma collect_item_nocb_gen s idx h exc :
  s_mpc (collect_item c s idx h exc) = MGet \/ exists e, s_mpc (collect_item c s idx h exc) = MStopRead (AFinal (ORaise e)).
Proof.
  unfold collect_item, has_user_cb, user_cb. rewrite Hplan, Hgen. destruct (_ || _); [|left; reflexivity].
  destruct exc as [|e r]; [left; reflexivity|right; exists e; reflexivity].
Qed.

Definition NG (s : state) : Prop :=
  (s_stop s = true -> raising s) /\
  (forall a, s_mpc s = MStopRead a \/ s_mpc s = MStopWrite a -> exists e, a = AFinal (ORaise e)).

Lemma NG_keep s s' : s_stop s' = s_stop s -> s_mpc s' = s_mpc s -> s_result s' = s_result s -> NG s -> NG s'.
Proof. unfold NG, raising. intros -> -> ->. auto. Qed.

Lemma NG_to s pc :
  (raising s -> raising (set_mpc s pc)) ->
  (forall a, pc = MStopRead a \/ pc = MStopWrite a -> exists e, a = AFinal (ORaise e)) ->
  NG s -> NG (set_mpc s pc).
Proof.
  intros Hr Ha (N1 & _). split; [cbn [set_mpc s_stop]; intros Hs; apply Hr; exact (N1 Hs)|cbn [set_mpc s_mpc]; exact Ha].
Qed.

Lemma step_main_NG s inc : TInv c s -> NG s -> NG (step_main c s inc).
Proof.
  intros T HN. pose proof HN as (N1 & N2).
  destruct (s_mdone s) eqn:Hmd.
  { assert (Hm : s_mpc s = MDone) by (apply (t_done c s T); exact Hmd). unfold step_main. rewrite Hm. exact HN. }
  destruct (not_done_facts c s T Hmd) as [Hres _].
  assert (Hrs : raising s -> exists e, out_of (s_mpc s) = Some (ORaise e)) by (intros H; exact (raising_out s H Hres)).
  unfold step_main. destruct (s_mpc s) eqn:Empc.
  - apply NG_to; try exact HN; [intros H; destruct (Hrs H) as [e E]; discriminate E|intros a [E|E]; discriminate E].
  - assert (Hnr : ~ raising s) by (intros H; destruct (Hrs H) as [e E]; discriminate E).
    assert (Hst : s_stop s = false) by (destruct (s_stop s) eqn:Es; [exfalso; exact (Hnr (N1 eq_refl))|reflexivity]).
    destruct (refused c t).
    + destruct ((t =? 1) || (t =? 2) || (t =? 3)).
      * split; cbn [finish_main s_stop s_mpc s_result]; [rewrite Hst; discriminate|intros a [E|E]; discriminate E].
      * destruct (next_to_start c t); apply NG_to; try exact HN; try (intros H; exfalso; exact (Hnr H)); intros a [E|E]; discriminate E.
    + assert (HNs : NG (start_thread s t)).
      { destruct (start_thread_keep s t) as (_ & _ & _ & Em & Er).
        apply (NG_keep s); try assumption. unfold start_thread, reader_next, upd_hasher. break_match; reflexivity. }
      assert (Hm' : s_mpc (start_thread s t) = MStart t) by (destruct (start_thread_keep s t) as (_ & _ & _ & Em & _); rewrite Em; exact Empc).
      assert (Hnr' : ~ raising (start_thread s t)).
      { intros [[e E]|[e E]]; [rewrite Hm' in E; discriminate E|]. destruct (start_thread_keep s t) as (_ & _ & _ & _ & Er). rewrite Er, Hres in E. discriminate E. }
      destruct (next_to_start c t); apply NG_to; try exact HNs; try (intros H; exfalso; exact (Hnr' H)); intros a [E|E]; discriminate E.
  - assert (Hnr : ~ raising s) by (intros H; destruct (Hrs H) as [e E]; discriminate E).
    destruct (s_hq s) as [|[|idx h exc] r] eqn:Ehq; [exact HN| |].
    + apply NG_to; [intros H; exfalso; exact (Hnr H)|intros a [E|E]; discriminate E|apply (NG_keep s); [reflexivity..|exact HN]].
    + cbn [set_hq s_seen]. destruct (existsb (Z.eqb idx) (s_seen s)).
      * apply NG_to; [intros _; apply (raising_pc _ _ (-2)); reflexivity|intros a [E|E]; [injection E as <-; exists (-2); reflexivity|discriminate E]|apply (NG_keep s); [reflexivity..|exact HN]].
      * split; cbn [set_mpc upd_collector set_hq s_stop s_mpc s_result]; [intros Hs; exfalso; exact (Hnr (N1 Hs))|intros a [E|E]; discriminate E].
  - assert (Hnr : ~ raising s) by (intros H; destruct (Hrs H) as [e E]; discriminate E).
    set (s1 := set_now s (s_now s + inc)).
    pose proof (collect_item_stop c s1 idx h exc) as Est. pose proof (collect_item_result_same c s1 idx h exc) as Ers.
    destruct (collect_item_nocb_gen s1 idx h exc) as [Em|[e Em]].
    + split; rewrite ?Est, ?Em; subst s1; cbn [set_now s_stop] in *; [intros Hs; exfalso; exact (Hnr (N1 Hs))|intros a [E|E]; discriminate E].
    + split; rewrite ?Em; [intros _; left; exists e; rewrite Em; reflexivity|intros a [E|E]; [injection E as <-; exists e; reflexivity|discriminate E]].
  - destruct (N2 a (or_introl eq_refl)) as [e ->].
    destruct (s_stop s); apply NG_to; try exact HN; try (intros _; apply (raising_pc s _ e); reflexivity); intros a [E|E]; try discriminate E; injection E as <-; exists e; reflexivity.
  - destruct (N2 a (or_intror eq_refl)) as [e ->].
    split; cbn [set_mpc set_stop s_stop s_mpc s_result]; [intros _; left; exists e; reflexivity|intros a [E|E]; discriminate E].
  - assert (Hro : raising s -> exists e, raise_of o (s_rexc s) = ORaise e).
    { intros H. destruct (Hrs H) as [e E]. cbn in E. injection E as ->. unfold raise_of. destruct (s_rexc s); eexists; reflexivity. }
    destruct (is_alive s 1); apply NG_to; try exact HN; try (intros a [E|E]; try discriminate E; unfold next_hasher in E; destruct (nth_error _ _); discriminate E).
    + intros H. destruct (Hrs H) as [e E]. left. exists e. exact E.
    + intros H. destruct (Hro H) as [e E]. left. exists e. cbn [set_mpc s_mpc]. rewrite out_of_next_hasher, E. reflexivity.
  - assert (Hro : raising s -> exists e, raise_of o (s_rexc s) = ORaise e).
    { intros H. destruct (Hrs H) as [e E]. cbn in E. injection E as ->. unfold raise_of. destruct (s_rexc s); eexists; reflexivity. }
    apply NG_to; try exact HN; try (intros a [E|E]; unfold next_hasher in E; destruct (nth_error _ _); discriminate E).
    intros H. destruct (Hro H) as [e E]. left. exists e. cbn [set_mpc s_mpc]. rewrite out_of_next_hasher, E. reflexivity.
  - destruct (is_alive s t); apply NG_to; try exact HN; try (intros a [E|E]; try discriminate E; unfold next_hasher in E; destruct (nth_error _ _); discriminate E).
    + intros H. destruct (Hrs H) as [e E]. left. exists e. exact E.
    + intros H. destruct (Hrs H) as [e E]. left. exists e. cbn [set_mpc s_mpc]. rewrite out_of_next_hasher. exact E.
  - apply NG_to; try exact HN; try (intros a [E|E]; unfold next_hasher in E; destruct (nth_error _ _); discriminate E).
    intros H. destruct (Hrs H) as [e E]. left. exists e. cbn [set_mpc s_mpc]. rewrite out_of_next_hasher. exact E.
  - destruct (is_alive s 2).
    + apply NG_to; try exact HN; [|intros a [E|E]; discriminate E]. intros H. destruct (Hrs H) as [e E]. left. exists e. exact E.
    + assert (Hfin : raising s -> raising (finish c s o)).
      { intros H. destruct (Hrs H) as [e E]. cbn in E. injection E as ->. right. exists e. reflexivity. }
      split; unfold finish; destruct o; cbn [finish_main s_stop s_mpc s_result]; try (intros a [E|E]; discriminate E); intros Hs; exact (Hfin (N1 Hs)).
  - assert (Hfin : raising s -> raising (finish c s o)).
    { intros H. destruct (Hrs H) as [e E]. cbn in E. injection E as ->. right. exists e. reflexivity. }
    split; unfold finish; destruct o; cbn [finish_main s_stop s_mpc s_result]; try (intros a [E|E]; discriminate E); intros Hs; exact (Hfin (N1 Hs)).
  - exact HN.
Qed.

Theorem nocb_gen_invariant s : (1 <= cf_hashers c)%nat -> reach c s -> NG s.
Proof.
  intros Hn. induction 1 as [|s t a inc Hr IH Hen Hinc].
  - split; [cbn; discriminate|intros a [E|E]; discriminate E].
  - pose proof (thread_invariant c s Hn Hr) as T.
    unfold step. destruct (t =? 0); [apply step_main_NG; assumption|].
    destruct (t =? 1).
    + assert (Hg : forall s0, s_stop s0 = s_stop s -> s_mpc s0 = s_mpc s -> s_result s0 = s_result s -> NG (step_reader s0)).
      { intros s0 E1 E2 E3. destruct (step_reader_keep s0) as (_ & _ & _ & _ & _ & Em & Er).
        apply (NG_keep s); [rewrite step_reader_rd'; exact E1|rewrite Em; exact E2|rewrite Er; exact E3|exact IH]. }
      destruct (s_rpc s); apply Hg; reflexivity.
    + destruct (t =? 2).
      * destruct (step_janitor_rd s a) as (_ & _ & _ & _ & A5). destruct (step_janitor_keep s a) as (_ & _ & _ & _ & E5 & E6). apply (NG_keep s); assumption.
      * destruct (step_hasher_rd s (hasher_index t) a) as (_ & _ & _ & _ & A5). destruct (step_hasher_keep s (hasher_index t) a) as (_ & _ & _ & E4 & E5 & _). apply (NG_keep s); assumption.
Qed.

(* Without a callback a hashing run over readable content never returns False: a verdict is True, with the reference hashes. *)
Theorem generate_without_callback_never_false s r hs :
  (1 <= cf_hashers c)%nat -> reach c s -> yielded (cf_items c) = map RPiece hs -> cf_total c = zlen hs ->
  s_result s = Some r -> verdict r -> r = ResTrue /\ sorted_hashes (s_hashes s) = hs.
Proof.
  intros Hn Hr HY Htot Hres Hvd. pose proof (thread_invariant c s Hn Hr) as T.
  assert (Hmd : s_mpc s = MDone) by (apply (t_done c s T); apply (t_result c s T); rewrite Hres; discriminate).
  destruct (nocb_gen_invariant s Hn Hr) as (N1 & _).
  assert (Hnr : ~ raising s).
  { intros [[e E]|[e E]]; [rewrite Hmd in E; discriminate E|]. rewrite Hres in E. injection E as ->. destruct Hvd as [V|V]; discriminate V. }
  assert (Hs : s_stop s = false) by (destruct (s_stop s) eqn:Es; [exfalso; exact (Hnr (N1 eq_refl))|reflexivity]).
  exact (unstopped_generate_stores_reference c s r hs Hn Hr Hgen HY Htot Hres Hvd Hs).
Qed.
End NoCbGen.
