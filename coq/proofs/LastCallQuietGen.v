(* LastCallQuietGen.v -- C12, unbounded: a hashing run over readable content with a passive callback is never told to stop,
   so every such run that returns a verdict returns True and made its last report with done = total. *)
From Coq Require Import Lia ZifyBool Permutation.
From Torf Require Import Base Pipeline PipelineProofs Tree OrderProofs FlowProofs ThreadProofs DeadlockProofs ConservationProofs ReaderDoneProofs
  DrainProofs ExceptionProofs LastCallProofs VerifyTrueProofs VerifyFalseProofs LastCallVerify CompleteProofs LastCallVerdict.
Open Scope Z_scope.

Lemma collect_item_quiet_gen c s idx h : cf_plan c = CbQuiet -> cf_verify c = None -> s_mpc (collect_item c s idx h []) = MGet.
Proof.
  intros Hp Hv. unfold collect_item, has_user_cb, user_cb. rewrite Hp, Hv. destruct (_ || _); reflexivity.
Qed.

Theorem quiet_never_stops_gen c s hs : cf_plan c = CbQuiet -> cf_verify c = None -> yielded (cf_items c) = map RPiece hs -> reach c s -> QS s.
Proof.
  intros Hp Hv HY. induction 1 as [|s t a inc Hr IH Hen Hinc]; [split; [reflexivity|split; intros a; discriminate]|].
  unfold step. destruct (t =? 0).
  - pose proof IH as (Hs & H1 & H2). unfold step_main. destruct (s_mpc s) eqn:Empc;
      try (apply QS_to; [intros a0; discriminate|intros a0; discriminate|exact IH]);
      try (exfalso; exact (H1 _ eq_refl)); try (exfalso; exact (H2 _ eq_refl)).
    + destruct (refused c t0).
      * destruct ((t0 =? 1) || (t0 =? 2) || (t0 =? 3)); [split; [exact Hs|split; intros a0; discriminate]|].
        destruct (next_to_start c t0); apply QS_to; try (intros a0; discriminate); exact IH.
      * assert (Hst : QS (start_thread s t0)).
        { destruct (start_thread_keep s t0) as (_ & _ & _ & Em & _Er). split; [|rewrite Em, Empc; split; intros a0; discriminate].
          rewrite <- Hs. unfold start_thread, reader_next, upd_hasher. break_match; reflexivity. }
        destruct (next_to_start c t0); apply QS_to; try (intros a0; discriminate); exact Hst.
    + destruct (s_hq s) as [|[|idx h exc] r] eqn:Ehq; [exact IH|apply QS_to; try (intros a0; discriminate); exact IH|].
      pose proof (no_piece_twice c s idx h exc r Hr Ehq) as Hns. cbn [set_hq s_seen].
      destruct (existsb (Z.eqb idx) (s_seen s)) eqn:Eex.
      { exfalso. apply existsb_exists in Eex as (x & Hx & Ex). apply Hns. replace idx with x by lia. exact Hx. }
      split; [exact Hs|split; intros a0; discriminate].
    + destruct (exception_invariant c s Hr) as [_ (_ & Q2 & _)]. pose proof (Q2 idx h exc Empc) as Hpay.
      assert (exc = []) as ->.
      { cbn [payload_ok] in Hpay. destruct Hpay as [_ Hpay]. rewrite HY, nth_error_map in Hpay.
        destruct (nth_error hs (Z.to_nat idx)); cbn in Hpay; [destruct Hpay as [_ E]; exact E|contradiction]. }
      pose proof (collect_item_quiet_gen c (set_now s (s_now s + inc)) idx h Hp Hv) as Em.
      split; [rewrite collect_item_stop; exact Hs|rewrite Em; split; intros a0; discriminate].
    + destruct (is_alive s 1); apply QS_to; try (intros a0; discriminate); try exact IH; intros a0; unfold next_hasher; destruct (nth_error _ _); discriminate.
    + apply QS_to; try exact IH; intros a0; unfold next_hasher; destruct (nth_error _ _); discriminate.
    + destruct (is_alive s t0); apply QS_to; try (intros a0; discriminate); try exact IH; intros a0; unfold next_hasher; destruct (nth_error _ _); discriminate.
    + apply QS_to; try exact IH; intros a0; unfold next_hasher; destruct (nth_error _ _); discriminate.
    + destruct (is_alive s 2); [apply QS_to; try (intros a0; discriminate); exact IH|].
      unfold finish. destruct o; (split; [exact Hs|split; intros a0; discriminate]).
    + unfold finish. destruct o; (split; [exact Hs|split; intros a0; discriminate]).
    + exact IH.
  - destruct (t =? 1).
    + assert (Hg : forall s0, s_stop s0 = s_stop s -> s_mpc s0 = s_mpc s -> QS (step_reader s0)).
      { intros s0 E1 E2. destruct (step_reader_keep s0) as (_ & _ & _ & _ & _ & Em & _). pose proof (step_reader_rd' s0) as Es.
        apply (QS_keep s); [rewrite Es; exact E1|rewrite Em; exact E2|exact IH]. }
      destruct (s_rpc s); apply Hg; reflexivity.
    + destruct (t =? 2).
      * destruct (step_janitor_rd s a) as (_ & _ & _ & _ & A5). destruct (step_janitor_keep s a) as (_ & _ & _ & _ & E5 & _). apply (QS_keep s); assumption.
      * destruct (step_hasher_rd s (hasher_index t) a) as (_ & _ & _ & _ & A5). destruct (step_hasher_keep s (hasher_index t) a) as (_ & _ & _ & E4 & _). apply (QS_keep s); assumption.
Qed.


Theorem last_call_reports_total_quiet_generate c s r hs :
  (1 <= cf_hashers c)%nat -> reach c s -> cf_verify c = None -> cf_plan c = CbQuiet ->
  yielded (cf_items c) = map RPiece hs -> cf_total c = zlen hs -> 0 < cf_total c ->
  s_result s = Some r -> verdict r ->
  r = ResTrue /\ exists pre idx e, s_calls s = pre ++ [(cf_total c, idx, e)].
Proof.
  intros Hn Hr Hv Hp HY Htot Hpos Hres Hvd. destruct (quiet_never_stops_gen c s hs Hp Hv HY Hr) as [Hs _].
  assert (Hcb : has_user_cb c = true) by (unfold has_user_cb; rewrite Hp; reflexivity).
  split; [exact (generate_unstopped_returns_true c s r hs Hn Hr Hv HY Htot Hres Hvd Hs)|].
  exact (last_call_reports_total_unstopped_generate c s r hs Hn Hr Hv Hcb HY Htot Hpos Hres Hvd Hs).
Qed.
