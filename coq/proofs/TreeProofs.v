(* TreeProofs.v -- the name and file list computed by the model of
   Torrent.path = <spelled path> are a function of the tree (relative paths and
   sizes), the name of the directory the path refers to and the filters: they do
   not depend on the working directory, the location, the spelling or the order
   of the directory listing. *)
From Coq Require Import Lia ZifyBool Permutation.
From Torf Require Import Base Regex Tree OrderProofs.
Open Scope Z_scope.

(* an ordinary path component: not empty, not "." and not ".." *)
Definition plainb (c : str) : bool := negb (is_nil c) && negb (str_eqb c s_dot) && negb (str_eqb c s_dotdot).
Definition plain (c : str) : Prop := plainb c = true.

Lemma plain_parts c : plain c -> is_nil c = false /\ str_eqb c s_dot = false /\ str_eqb c s_dotdot = false.
Proof. unfold plain, plainb. rewrite !andb_true_iff, !negb_true_iff. tauto. Qed.

(* ---- normpath ---- *)
Lemma norm_go_plain abs acc r : Forall plain r -> norm_go abs acc r = rev acc ++ r.
Proof.
  intros H. revert acc. induction H as [|c r Hc Hr IH]; intros acc; cbn [norm_go]; [rewrite app_nil_r; reflexivity|].
  destruct (plain_parts c Hc) as (E1 & E2 & E3). rewrite E1, E2, E3. cbn [orb]. rewrite IH. cbn [rev]. rewrite <- app_assoc. reflexivity.
Qed.

Lemma norm_go_app abs acc cs r : Forall plain r -> norm_go abs acc (cs ++ r) = norm_go abs acc cs ++ r.
Proof.
  intros Hr. revert acc. induction cs as [|c cs IH]; intros acc; cbn [app norm_go].
  - apply norm_go_plain. exact Hr.
  - destruct (is_nil c || str_eqb c s_dot); [apply IH|].
    destruct (str_eqb c s_dotdot); [|apply IH].
    destruct acc as [|a acc']; [destruct abs; apply IH|]. destruct (str_eqb a s_dotdot); apply IH.
Qed.

Lemma norm_go_plain_prefix abs acc cs r : Forall plain cs -> norm_go abs acc (cs ++ r) = norm_go abs (rev cs ++ acc) r.
Proof.
  intros H. revert acc. induction H as [|c cs Hc Hcs IH]; intros acc; cbn [app norm_go rev]; [reflexivity|].
  destruct (plain_parts c Hc) as (E1 & E2 & E3). rewrite E1, E2, E3. cbn [orb]. rewrite IH. rewrite <- app_assoc. reflexivity.
Qed.

Lemma abspath_app cwd abs parts r : Forall plain r -> abspath cwd abs (parts ++ r) = abspath cwd abs parts ++ r.
Proof.
  intros Hr. unfold abspath. destruct abs; [apply norm_go_app; exact Hr|]. rewrite app_assoc. apply norm_go_app. exact Hr.
Qed.

(* ---- pathlib parsing ---- *)
Lemma pl_parts_plain r : Forall plain r -> pl_parts r = r.
Proof.
  induction 1 as [|c r Hc Hr IH]; cbn [pl_parts filter]; [reflexivity|].
  destruct (plain_parts c Hc) as (E1 & E2 & _). rewrite E1, E2. cbn [negb andb]. f_equal. exact IH.
Qed.

Lemma pl_parts_app a b : pl_parts (a ++ b) = pl_parts a ++ pl_parts b.
Proof. unfold pl_parts. apply filter_app. Qed.

Lemma pl_parts_idem raw : pl_parts (pl_parts raw) = pl_parts raw.
Proof.
  unfold pl_parts. induction raw as [|c r IH]; cbn [filter]; [reflexivity|].
  destruct (negb (is_nil c) && negb (str_eqb c s_dot)) eqn:E; [cbn [filter]; rewrite E; f_equal; exact IH | exact IH].
Qed.

Lemma pl_parts_in c raw : In c (pl_parts raw) -> is_nil c = false /\ str_eqb c s_dot = false.
Proof. unfold pl_parts. rewrite filter_In, andb_true_iff, !negb_true_iff. tauto. Qed.

(* ---- relative_to ---- *)
Lemma strip_prefix_app p l : strip_prefix p (p ++ l) = Some l.
Proof. induction p as [|x p IH]; cbn [strip_prefix app]; [reflexivity|]. rewrite str_eqb_refl. exact IH. Qed.

Lemma relative_to_app p l : relative_to (p ++ l) p = Ok l.
Proof. unfold relative_to. rewrite strip_prefix_app. reflexivity. Qed.

Lemma relpath_under name rel : relpath (name :: rel) [name] = rel.
Proof. cbn [relpath]. rewrite str_eqb_refl. destruct rel; reflexivity. Qed.

(* ---- the name ---- *)
Lemma ends_with_dot_false c : ends_with_dot c = false -> str_eqb c s_dot = false /\ str_eqb c s_dotdot = false.
Proof.
  intros H. split.
  - destruct (str_eqb c s_dot) eqn:E; [|reflexivity]. apply str_eqb_eq in E. subst c. discriminate H.
  - destruct (str_eqb c s_dotdot) eqn:E; [|reflexivity]. apply str_eqb_eq in E. subst c. discriminate H.
Qed.

Lemma last_or_empty_last l x : last_or_empty (l ++ [x]) = x.
Proof. unfold last_or_empty. apply last_last. Qed.

Lemma exists_last_str (l : list str) : l <> [] -> exists xs c, l = xs ++ [c].
Proof. intros H. destruct (exists_last H) as (xs & c & E). exists xs, c. exact E. Qed.

Lemma str_ends_with_dot_last abs xs c : str_ends_with_dot abs (xs ++ [c]) = ends_with_dot c.
Proof.
  unfold str_ends_with_dot. destruct (xs ++ [c]) as [|y r] eqn:E; [destruct xs; discriminate E|].
  rewrite <- E. rewrite last_or_empty_last. reflexivity.
Qed.

Theorem choose_name_correct cwd abs raw loc name :
  Forall plain cwd ->
  abspath cwd abs (pl_parts raw) = loc ++ [name] ->
  choose_name cwd abs (pl_parts raw) = name.
Proof.
  intros Hcwd Hres. unfold choose_name. remember (pl_parts raw) as parts eqn:Ep.
  destruct (negb abs && is_nil parts) eqn:B1.
  { apply andb_true_iff in B1 as [Ha Hn]. apply negb_true_iff in Ha. subst abs. destruct parts; [|discriminate].
    unfold abspath in Hres. rewrite app_nil_r, (norm_go_plain true [] cwd Hcwd) in Hres. cbn [rev app] in Hres.
    rewrite Hres. apply last_or_empty_last. }
  destruct (negb abs && path_eqb parts [s_dotdot]) eqn:B2.
  { apply andb_true_iff in B2 as [Ha Hp]. apply negb_true_iff in Ha. subst abs. apply path_eqb_eq in Hp. rewrite Hp in Hres.
    unfold abspath in Hres. rewrite (norm_go_plain_prefix true [] cwd [s_dotdot] Hcwd), app_nil_r in Hres.
    destruct (rev cwd) as [|a acc'] eqn:Erev.
    - cbn in Hres. destruct loc; discriminate Hres.
    - assert (Hcw : cwd = rev acc' ++ [a]) by (rewrite <- (rev_involutive cwd), Erev; reflexivity).
      assert (Ha : plain a) by (rewrite Forall_forall in Hcwd; apply Hcwd; rewrite Hcw; apply in_or_app; right; left; reflexivity).
      destruct (plain_parts a Ha) as (_ & _ & E3).
      cbn [norm_go] in Hres. replace (is_nil s_dotdot || str_eqb s_dotdot s_dot) with false in Hres by reflexivity.
      rewrite str_eqb_refl, E3 in Hres. cbn [norm_go] in Hres.
      rewrite Hcw, removelast_last, Hres. apply last_or_empty_last. }
  destruct (str_ends_with_dot abs parts) eqn:B3.
  { rewrite Hres. apply last_or_empty_last. }
  (* basepath.name *)
  destruct parts as [|p0 ps].
  { cbn in B3. apply negb_false_iff in B3. subst abs. cbn in Hres. destruct loc; discriminate Hres. }
  destruct (exists_last_str (p0 :: ps)) as (xs & c & Exs); [discriminate|].
  rewrite Exs in *. clear Exs p0 ps.
  assert (B3' : ends_with_dot c = false) by (rewrite str_ends_with_dot_last in B3; exact B3).
  destruct (ends_with_dot_false c B3') as [E2 E3].
  assert (Hin : In c (pl_parts raw)) by (rewrite <- Ep; apply in_or_app; right; left; reflexivity).
  destruct (pl_parts_in c raw Hin) as [E1 _].
  assert (Hc : plain c) by (unfold plain, plainb; rewrite E1, E2, E3; reflexivity).
  rewrite (abspath_app cwd abs xs [c]) in Hres by (constructor; [exact Hc|constructor]).
  apply app_inj_tail in Hres as [_ <-]. apply last_or_empty_last.
Qed.

(* ---- the specification: a function of (name, relative paths, sizes, filters) ---- *)
Definition spec_keep (fl : filters) (name : str) (e : entry) : bool :=
  negb (is_hidden (fst e)) && negb (is_excluded fl (join_slash (name :: fst e))) && (0 <? snd e).

Definition sort_rel (l : list entry) : list entry := isort (fun e : entry => fst e) path_ltb l.

Definition spec_dir (fl : filters) (name : str) (tree : list entry) : layout :=
  match filter (spec_keep fl name) tree with
  | [] => LEmpty
  | kept => LMulti name (sort_rel kept)
  end.

Definition spec_file (fl : filters) (name : str) (size : Z) : layout :=
  if spec_keep fl name ([], size) then LSingle name size else LEmpty.

(* a directory listing: every entry is a non-empty path of ordinary components *)
Definition dir_entry (e : entry) : Prop := fst e <> [] /\ Forall plain (fst e).

Lemma path_str_cons name rel : path_str (name :: rel) = join_slash (name :: rel).
Proof. reflexivity. Qed.

Lemma keep_entry_spec fl name e :
  plain name -> Forall plain (fst e) ->
  keep_entry fl [name] (name :: fst e) (snd e) = spec_keep fl name e.
Proof.
  intros Hn He. unfold keep_entry, spec_keep. rewrite relpath_under, (pl_parts_plain _ He).
  cbn [removelast app]. rewrite (pl_parts_plain (name :: fst e)) by (constructor; assumption).
  rewrite path_str_cons. reflexivity.
Qed.

Definition tag (name : str) (e : entry) : tagged := (e, name :: fst e, fst e).

Lemma mapM_tag cwd abs parts loc name (listing : list entry) :
  abspath cwd abs parts = loc ++ [name] ->
  Forall (fun e => Forall plain (fst e)) listing ->
  mapM (fun e : entry =>
          do wp <- relative_to (abspath cwd abs (parts ++ fst e)) (removelast (abspath cwd abs parts));
          do wo <- relative_to (abspath cwd abs (parts ++ fst e)) (abspath cwd abs parts);
          Ok (e, wp, wo)) listing = Ok (map (tag name) listing).
Proof.
  intros Hres H. induction H as [|e l He Hl IH]; cbn [mapM map]; [reflexivity|].
  rewrite (abspath_app _ _ _ _ He), Hres, removelast_last.
  rewrite <- app_assoc at 1. rewrite relative_to_app. cbn [bind].
  rewrite relative_to_app. cbn [bind]. rewrite Hres, removelast_last in IH. rewrite IH. reflexivity.
Qed.

Lemma filter_tag fl name l :
  plain name -> Forall (fun e => Forall plain (fst e)) l ->
  filter (fun t : tagged => keep_entry fl [name] (snd (fst t)) (snd (fst (fst t)))) (map (tag name) l)
  = map (tag name) (filter (spec_keep fl name) l).
Proof.
  intros Hn H. induction H as [|e l He Hl IH]; cbn [map filter]; [reflexivity|].
  cbn [tag fst snd]. rewrite (keep_entry_spec fl name e Hn He). destruct (spec_keep fl name e); cbn [map]; rewrite IH; reflexivity.
Qed.

Lemma insert_by_tag parts name e l :
  insert_by parts (tag name e) (map (tag name) l) = map (tag name) (ins (fun x : entry => fst x) path_ltb e l).
Proof.
  induction l as [|x r IH]; cbn [map insert_by ins]; [reflexivity|].
  unfold tkey at 1 2. cbn [tag fst]. rewrite path_ltb_app_prefix.
  destruct (path_ltb (fst x) (fst e)); cbn [map]; [rewrite IH|]; reflexivity.
Qed.

Lemma sort_tagged_tag parts name l :
  sort_tagged parts (map (tag name) l) = map (tag name) (sort_rel l).
Proof.
  induction l as [|e r IH]; cbn [map sort_tagged fold_right]; [reflexivity|].
  fold (sort_tagged parts (map (tag name) r)). rewrite IH. rewrite insert_by_tag. reflexivity.
Qed.

Lemma map_out_tag name l : map (fun t : tagged => (snd t, snd (fst (fst t)))) (map (tag name) l) = l.
Proof. induction l as [|[p s] r IH]; cbn [map tag fst snd]; [reflexivity|]. f_equal. exact IH. Qed.

Lemma norm_go_true_plain acc cs : Forall plain acc -> Forall plain (norm_go true acc cs).
Proof.
  revert acc. induction cs as [|c cs IH]; intros acc Hacc; cbn [norm_go].
  - apply Forall_rev. exact Hacc.
  - destruct (is_nil c || str_eqb c s_dot) eqn:E0; [apply IH; exact Hacc|].
    destruct (str_eqb c s_dotdot) eqn:E3.
    + destruct acc as [|a acc']; [apply IH; constructor|].
      inversion Hacc as [|? ? Ha Hacc']; subst. destruct (plain_parts a Ha) as (_ & _ & Ea). rewrite Ea. apply IH. exact Hacc'.
    + apply IH. constructor; [|exact Hacc]. apply orb_false_iff in E0 as [E1 E2]. unfold plain, plainb. rewrite E1, E2, E3. reflexivity.
Qed.

Lemma abspath_plain cwd abs parts : Forall plain (abspath cwd abs parts).
Proof. unfold abspath. destruct abs; apply norm_go_true_plain; constructor. Qed.

(* the directory case: every configuration yields the specification *)
Theorem set_path_dir cwd sp fl listing loc name :
  Forall plain cwd ->
  abspath cwd (sp_abs sp) (pl_parts (sp_raw sp)) = loc ++ [name] ->
  Forall dir_entry listing ->
  set_path cwd sp fl listing = Ok (spec_dir fl name listing).
Proof.
  intros Hcwd Hres Hl. unfold set_path.
  assert (Hname : plain name).
  { pose proof (abspath_plain cwd (sp_abs sp) (pl_parts (sp_raw sp))) as Hp. rewrite Hres in Hp.
    apply Forall_app in Hp as [_ Hp]. inversion Hp; assumption. }
  assert (Hl' : Forall (fun e : entry => Forall plain (fst e)) listing).
  { eapply Forall_impl; [|exact Hl]. intros e [_ He]. exact He. }
  rewrite (mapM_tag _ _ _ _ _ _ Hres Hl').
  rewrite Hres, removelast_last, relative_to_app. cbn [bind app].
  rewrite (filter_tag fl name listing Hname Hl'). unfold spec_dir.
  assert (Hk : Forall dir_entry (filter (spec_keep fl name) listing)).
  { rewrite Forall_forall in *. intros e He. apply filter_In in He as [He _]. apply Hl. exact He. }
  destruct (filter (spec_keep fl name) listing) as [|e0 rest] eqn:Ek; [reflexivity|].
  cbn [map]. cbn [tag fst snd].
  assert (Hsingle : is_nil (map (tag name) rest) && path_eqb (pl_parts (pl_parts (sp_raw sp) ++ fst e0)) (pl_parts (sp_raw sp)) = false).
  { inversion Hk as [|? ? [Hne He0] _]; subst. rewrite pl_parts_app, pl_parts_idem, (pl_parts_plain _ He0).
    destruct (path_eqb (pl_parts (sp_raw sp) ++ fst e0) (pl_parts (sp_raw sp))) eqn:E; [|apply andb_false_r].
    exfalso. apply path_eqb_eq in E. rewrite <- (app_nil_r (pl_parts (sp_raw sp))) in E at 2. apply app_inv_head in E. exact (Hne E). }
  rewrite Hsingle.
  change (tag name e0 :: map (tag name) rest) with (map (tag name) (e0 :: rest)).
  rewrite sort_tagged_tag, map_out_tag, (choose_name_correct _ _ _ _ _ Hcwd Hres). reflexivity.
Qed.

(* the single-file case *)
Theorem set_path_file cwd sp fl size loc name xs :
  abspath cwd (sp_abs sp) (pl_parts (sp_raw sp)) = loc ++ [name] ->
  pl_parts (sp_raw sp) = xs ++ [name] ->
  set_path cwd sp fl [([], size)] = Ok (spec_file fl name size).
Proof.
  intros Hres Hparts. unfold set_path.
  assert (Hname : plain name).
  { pose proof (abspath_plain cwd (sp_abs sp) (pl_parts (sp_raw sp))) as Hp. rewrite Hres in Hp.
    apply Forall_app in Hp as [_ Hp]. inversion Hp; assumption. }
  rewrite Hres, removelast_last, relative_to_app. cbn [bind app].
  cbn [mapM fst]. rewrite !app_nil_r, Hres. rewrite relative_to_app. cbn [bind].
  rewrite <- (app_nil_r (loc ++ [name])) at 1. rewrite relative_to_app. cbn [bind app filter fst snd].
  change (keep_entry fl [name] [name] size) with (keep_entry fl [name] (name :: fst (([], size) : entry)) (snd (([], size) : entry))).
  rewrite (keep_entry_spec fl name ([], size) Hname) by constructor.
  unfold spec_file. destruct (spec_keep fl name ([], size)); [|reflexivity].
  cbn [is_nil fst snd]. rewrite !app_nil_r, pl_parts_idem, path_eqb_refl. cbn [andb].
  rewrite Hparts, last_or_empty_last. reflexivity.
Qed.

(* the specification does not depend on the listing order *)
Lemma filter_perm {X} (f : X -> bool) l1 l2 : Permutation l1 l2 -> Permutation (filter f l1) (filter f l2).
Proof.
  induction 1 as [|x l1 l2 H IH|x y l|l1 l2 l3 H1 IH1 H2 IH2]; cbn [filter].
  - constructor.
  - destruct (f x); [constructor|]; exact IH.
  - destruct (f x), (f y); try reflexivity; apply perm_swap.
  - etransitivity; eassumption.
Qed.

Lemma NoDup_map_filter {X Y} (g : X -> Y) (f : X -> bool) l : NoDup (map g l) -> NoDup (map g (filter f l)).
Proof.
  induction l as [|x l IH]; cbn [map filter]; intros H; [constructor|]. inversion H as [|? ? Hnin Hnd]; subst.
  destruct (f x); [|apply IH; exact Hnd]. cbn [map]. constructor; [|apply IH; exact Hnd].
  intros Hin. apply Hnin. apply in_map_iff in Hin as (y & Ey & Hy). apply filter_In in Hy as [Hy _]. rewrite <- Ey. apply in_map. exact Hy.
Qed.

Theorem spec_dir_perm fl name l1 l2 :
  Permutation l1 l2 -> NoDup (map fst l1) -> spec_dir fl name l1 = spec_dir fl name l2.
Proof.
  intros Hp Hnd. unfold spec_dir.
  pose proof (filter_perm (spec_keep fl name) _ _ Hp) as Hpf.
  assert (Hs : sort_rel (filter (spec_keep fl name) l1) = sort_rel (filter (spec_keep fl name) l2)).
  { apply isort_perm_invariant; [exact path_ltb_irrefl | exact path_ltb_trans | exact path_ltb_total | exact Hpf|].
    apply NoDup_map_filter. exact Hnd. }
  destruct (filter (spec_keep fl name) l1) as [|a r] eqn:E1; destruct (filter (spec_keep fl name) l2) as [|b r'] eqn:E2.
  - reflexivity.
  - apply Permutation_nil in Hpf. discriminate.
  - apply Permutation_sym, Permutation_nil in Hpf. discriminate.
  - rewrite Hs. reflexivity.
Qed.

(* C15: two configurations of the same tree give the same torrent *)
Theorem function_of_tree cwd1 sp1 loc1 listing1 cwd2 sp2 loc2 listing2 fl name :
  Forall plain cwd1 -> Forall plain cwd2 ->
  abspath cwd1 (sp_abs sp1) (pl_parts (sp_raw sp1)) = loc1 ++ [name] ->
  abspath cwd2 (sp_abs sp2) (pl_parts (sp_raw sp2)) = loc2 ++ [name] ->
  Forall dir_entry listing1 -> NoDup (map fst listing1) -> Permutation listing1 listing2 ->
  set_path cwd1 sp1 fl listing1 = set_path cwd2 sp2 fl listing2.
Proof.
  intros Hc1 Hc2 H1 H2 Hd Hnd Hp.
  rewrite (set_path_dir _ _ _ _ _ _ Hc1 H1 Hd).
  rewrite (set_path_dir _ _ _ _ _ _ Hc2 H2); [|rewrite Forall_forall in *; intros e He; apply Hd; apply (Permutation_in _ (Permutation_sym Hp)); exact He].
  f_equal. apply spec_dir_perm; assumption.
Qed.

(* ---- what the specification says about the filters ---- *)
Lemma spec_keep_iff fl name e :
  spec_keep fl name e = true <->
  is_hidden (fst e) = false /\ 0 < snd e /\ is_excluded fl (join_slash (name :: fst e)) = false.
Proof. unfold spec_keep. rewrite !andb_true_iff, !negb_true_iff. lia. Qed.

Lemma include_wins fl s :
  (existsb (fun r => rx_hit r s) (in_regexs fl) = true \/ existsb (fun g => glob_hit g s) (in_globs fl) = true) ->
  is_excluded fl s = false.
Proof.
  unfold is_excluded. intros [H|H]; [rewrite H; reflexivity|].
  destruct (existsb (fun r => rx_hit r s) (in_regexs fl)); [reflexivity|]. rewrite H. reflexivity.
Qed.

Lemma exclude_applies fl s :
  existsb (fun r => rx_hit r s) (in_regexs fl) = false -> existsb (fun g => glob_hit g s) (in_globs fl) = false ->
  is_excluded fl s = existsb (fun r => rx_hit r s) (ex_regexs fl) || existsb (fun g => glob_hit g s) (ex_globs fl).
Proof. unfold is_excluded. intros -> ->. destruct (existsb (fun r => rx_hit r s) (ex_regexs fl)); reflexivity. Qed.

Lemma glob_ignores_case g g' s s' : casefold g = casefold g' -> casefold s = casefold s' -> glob_hit g s = glob_hit g' s'.
Proof. unfold glob_hit. intros -> ->. reflexivity. Qed.

Lemma lower_idem c : lower (lower c) = lower c.
Proof. unfold lower. destruct ((65 <=? c) && (c <=? 90)) eqn:E; [|rewrite E; reflexivity]. replace ((65 <=? c + 32) && (c + 32 <=? 90)) with false by lia. reflexivity. Qed.

Definition swapcase (c : Z) : Z :=
  if (65 <=? c) && (c <=? 90) then c + 32 else if (97 <=? c) && (c <=? 122) then c - 32 else c.

Lemma lower_swapcase c : lower (swapcase c) = lower c.
Proof.
  unfold lower, swapcase. destruct ((65 <=? c) && (c <=? 90)) eqn:E1.
  - replace ((65 <=? c + 32) && (c + 32 <=? 90)) with false by lia. reflexivity.
  - destruct ((97 <=? c) && (c <=? 122)) eqn:E2; [|rewrite E1; reflexivity].
    replace ((65 <=? c - 32) && (c - 32 <=? 90)) with true by lia. lia.
Qed.

Lemma casefold_swapcase s : casefold (map swapcase s) = casefold s.
Proof. unfold casefold. rewrite map_map. apply map_ext. apply lower_swapcase. Qed.

Theorem glob_case_insensitive g s : glob_hit (map swapcase g) (map swapcase s) = glob_hit g s.
Proof. apply glob_ignores_case; apply casefold_swapcase. Qed.

(* regular expressions are case-sensitive: "a" does not match "A" *)
Definition rx_a : rx := {| rx_bol := false; rx_body := RCls [(97, 97)] |}.
Lemma regex_case_sensitive : rx_hit rx_a [97] = true /\ rx_hit rx_a (map swapcase [97]) = false.
Proof. split; vm_compute; reflexivity. Qed.
