(* MonListInv.v -- C16: the invariant is preserved by every modelled operation
   (one step of a history) and therefore holds after every history. *)
From Coq Require Import Lia ZifyBool Permutation.
From Torf Require Import Base Extracted Geometry GeometryProofs MonList MonListProofs.
Open Scope Z_scope.

Section ML.
Variable valid : Z -> bool.
Variable norm : Z -> Z.
Hypothesis norm_valid : forall u, valid u = true -> valid (norm u) = true.
Hypothesis norm_idem : forall u, valid u = true -> norm (norm u) = norm u.

Notation stored := (stored valid norm).
Notation tiers_ok := (tiers_ok valid norm).

(* ---- a duplicate-free list of stored URLs (webseeds, httpseeds, one tier) ---- *)
Definition urls_ok (l : list Z) : Prop := NoDup l /\ Forall stored l.

(* elements of the new list are old ones or fresh ones (not known) *)
Definition update_ok (known old new : list Z) : Prop :=
  NoDup new /\ forall x, In x new -> stored x /\ (In x old \/ ~ In x known).

Lemma del_at_sub {X} (l : list X) k x : In x (del_at l k) -> In x l.
Proof.
  unfold del_at. intros H. apply in_app_iff in H as [H|H]; [eapply In_firstn; eauto|eapply In_skipn; eauto].
Qed.

Lemma del_at_NoDup {X} (l : list X) k : NoDup l -> NoDup (del_at l k).
Proof.
  destruct (del_at_cases l k) as [(a & y & b & -> & ->) | ->]; [|auto].
  intros H. apply NoDup_remove_1 in H. exact H.
Qed.

Lemma py_insert_perm {X} (l : list X) i x : Permutation (py_insert l i x) (x :: l).
Proof.
  destruct (py_insert_form l i x) as [k ->].
  rewrite <- (firstn_skipn k l) at 3. apply Permutation_sym, Permutation_middle.
Qed.

Lemma set_at_perm {X} (l : list X) k x : (k < length l)%nat -> Permutation (set_at l k x) (x :: del_at l k).
Proof. intros _. unfold set_at, del_at. apply Permutation_sym, Permutation_middle. Qed.

Lemma l_extend_ok known : forall us items r items',
  NoDup items -> Forall stored items ->
  l_extend valid norm known items us = (r, items') ->
  update_ok known items items' /\ (forall x, In x items -> In x items') /\ (forall e, r = Err e -> e = DURL).
Proof.
  induction us as [|u rest IH]; intros items r items' Hnd Hst H; cbn [l_extend] in H.
  - inversion H; subst. split; [split; [exact Hnd|]|split; [auto|intros e He; discriminate]].
    intros x Hx. split; [apply (proj1 (Forall_forall _ _) Hst x Hx)|left; exact Hx].
  - destruct (valid u) eqn:Ev.
    + destruct (dedup_into_spec known [norm u] items Hnd) as (A & B & C).
      assert (Forall stored (dedup_into known items [norm u])) as Hst'.
      { apply Forall_forall. intros x Hx. destruct (C x Hx) as [Hi|[[<-|[]] _]].
        - apply (proj1 (Forall_forall _ _) Hst x Hi).
        - apply stored_norm; assumption. }
      destruct (IH _ r items' A Hst' H) as ((U1 & U2) & I & E). split; [split; [exact U1|]|split].
      * intros x Hx. destruct (U2 x Hx) as [S [Hi|Hk]]; split; try exact S; [|right; exact Hk].
        destruct (C x Hi) as [Hi'|[_ Hk]]; [left; exact Hi'|right; exact Hk].
      * intros x Hx. apply I. apply B. exact Hx.
      * exact E.
    + inversion H; subst. split; [split; [exact Hnd|]|split; [auto|intros e He; inversion He; reflexivity]].
      intros x Hx. split; [apply (proj1 (Forall_forall _ _) Hst x Hx)|left; exact Hx].
Qed.

(* every list operation yields an admissible update; errors are URLError / IndexError / ValueError / not-modelled *)
Theorem l_apply_ok known items o r items' :
  NoDup items -> Forall stored items -> (forall x, In x items -> In x known \/ True) ->
  l_apply valid norm known items o = (r, items') ->
  update_ok known items items'.
Proof.
  intros Hnd Hst _ H.
  assert (update_ok known items items) as Hsame.
  { split; [exact Hnd|]. intros x Hx. split; [apply (proj1 (Forall_forall _ _) Hst x Hx)|left; exact Hx]. }
  assert (forall k, update_ok known items (del_at items k)) as Hdel.
  { intros k. split; [apply del_at_NoDup; exact Hnd|]. intros x Hx. apply del_at_sub in Hx.
    split; [apply (proj1 (Forall_forall _ _) Hst x Hx)|left; exact Hx]. }
  destruct o as [u|i u|u|i|i| |us|i u]; cbn [l_apply] in H.
  - (* append *)
    destruct (valid u) eqn:Ev; inversion H; subst; [|exact Hsame].
    destruct (dedup_into_spec known [norm u] items Hnd) as (A & B & C). split; [exact A|].
    intros x Hx. destruct (C x Hx) as [Hi|[[<-|[]] Hk]].
    + split; [apply (proj1 (Forall_forall _ _) Hst x Hi)|left; exact Hi].
    + split; [apply stored_norm; assumption|right; exact Hk].
  - (* insert *)
    destruct (valid u) eqn:Ev; inversion H; subst; [|exact Hsame].
    destruct (zmem (norm u) items || zmem (norm u) known) eqn:E; [exact Hsame|].
    apply orb_false_iff in E as [E1 E2]. apply zmem_false in E1, E2. split.
    + apply (Permutation_NoDup (Permutation_sym (py_insert_perm items i (norm u)))). constructor; assumption.
    + intros x Hx. apply (Permutation_in _ (py_insert_perm items i (norm u))) in Hx. destruct Hx as [<-|Hx].
      * split; [apply stored_norm; assumption|right; exact E2].
      * split; [apply (proj1 (Forall_forall _ _) Hst x Hx)|left; exact Hx].
  - destruct (index_of items u 0); inversion H; subst; [apply Hdel|exact Hsame].
  - destruct (py_index items i); inversion H; subst; [apply Hdel|exact Hsame].
  - destruct (py_index items i); inversion H; subst; [apply Hdel|exact Hsame].
  - inversion H; subst. split; [constructor|intros x []].
  - destruct (l_extend valid norm known items us) as [r0 it] eqn:El. inversion H; subst.
    destruct (l_extend_ok known us items r0 items' Hnd Hst El) as (U & _ & _). exact U.
  - destruct (valid u) eqn:Ev; [|inversion H; subst; exact Hsame].
    destruct (zmem (norm u) items || zmem (norm u) known) eqn:E; [inversion H; subst; exact Hsame|].
    apply orb_false_iff in E as [E1 E2]. apply zmem_false in E1, E2.
    destruct (py_index items i) as [k|] eqn:Ek; inversion H; subst; [|exact Hsame].
    assert (k < length items)%nat as Hk.
    { unfold py_index in Ek. destruct ((_ <? 0) || (_ >=? _)) eqn:Eb in Ek; [discriminate|]. inversion Ek; subst. lia. }
    split.
    + apply (Permutation_NoDup (Permutation_sym (set_at_perm items k (norm u) Hk))). constructor.
      * intros Hin. apply E1. eapply del_at_sub; eauto.
      * apply del_at_NoDup. exact Hnd.
    + intros x Hx. apply (Permutation_in _ (set_at_perm items k (norm u) Hk)) in Hx. destruct Hx as [<-|Hx].
      * split; [apply stored_norm; assumption|right; exact E2].
      * apply del_at_sub in Hx. split; [apply (proj1 (Forall_forall _ _) Hst x Hx)|left; exact Hx].
Qed.

(* ---- replacing one tier ---- *)
Lemma nth_split_at (t : tiers) k : (k < length t)%nat ->
  t = firstn k t ++ nth k t [] :: skipn (S k) t.
Proof.
  revert k; induction t as [|y r IH]; intros k Hk; [cbn in Hk; lia|].
  destruct k as [|k]; [reflexivity|]. cbn [firstn nth skipn app]. f_equal. apply IH. cbn in Hk. lia.
Qed.

Theorem tier_update_ok t k tier' :
  tiers_ok t -> (k < length t)%nat -> update_ok (flat t) (nth k t []) tier' ->
  tiers_ok (match tier' with [] => del_at t k | _ => set_at t k tier' end).
Proof.
  intros Hok Hk (Und & Uel).
  pose proof (tiers_ok_del valid norm t k Hok) as Hdel.
  destruct tier' as [|u tier']; [exact Hdel|].
  set (tn := u :: tier') in *.
  assert (set_at t k tn = firstn k (del_at t k) ++ tn :: skipn k (del_at t k)) as E.
  { unfold set_at, del_at.
    assert (length (firstn k t) = k) as Hl by (rewrite firstn_length; lia).
    rewrite firstn_app, skipn_app, Hl, Nat.sub_diag. cbn [firstn skipn].
    rewrite app_nil_r.
    assert (firstn k (firstn k t) = firstn k t) as E1 by (rewrite firstn_firstn, Nat.min_id; reflexivity).
    assert (skipn k (firstn k t) = []) as E2 by (apply skipn_all2; lia).
    rewrite E1, E2. reflexivity. }
  rewrite E. apply tiers_ok_insert; try assumption.
  - discriminate.
  - apply Forall_forall. intros x Hx. apply (Uel x Hx).
  - (* elements of the new tier are not in the other tiers *)
    intros x Hx Hin. destruct (Uel x Hx) as [_ [Hold|Hfresh]].
    + (* x was in the old tier: the tiers were duplicate-free *)
      destruct Hok as (Hnd & _ & _). rewrite (nth_split_at t k Hk) in Hnd.
      apply (Permutation_NoDup (flat_del_perm _ _ _)) in Hnd.
      assert (In x (flat (firstn k t ++ skipn (S k) t))) as Hin' by exact Hin.
      clear -Hnd Hold Hin'. revert Hnd Hold. generalize (nth k t []) as y. intros y Hnd Hold.
      induction y as [|z y IHy]; [destruct Hold|]. inversion Hnd; subst. destruct Hold as [->|Hold].
      * apply H1. apply in_or_app. right. exact Hin'.
      * apply IHy; assumption.
    + apply Hfresh. eapply flat_del_incl; eauto.
Qed.

(* ---- the state invariant ---- *)
Definition seeds_ok (o : option (list Z)) : Prop :=
  match o with Some l => l <> [] /\ urls_ok l | None => True end.

Definition Inv (m : mdstate) : Prop :=
  (exists t, tiers_ok t /\ md_announce m = md_announce (write_trackers t m) /\
             md_alist m = md_alist (write_trackers t m)) /\
  seeds_ok (md_web m) /\ seeds_ok (md_http m).

Lemma Inv_init : Inv init.
Proof. split; [exists []; split; [apply tiers_ok_nil|split; reflexivity]|split; exact I]. Qed.

Lemma Inv_write_trackers t m : tiers_ok t -> Inv m -> Inv (write_trackers t m).
Proof.
  intros Hok (_ & Hw & Hh). split; [|split; assumption].
  exists t. split; [exact Hok|split; reflexivity].
Qed.

Lemma Inv_read m : Inv m -> exists t, tiers_ok t /\ read_trackers valid norm m = Ok t.
Proof.
  intros ((t & Hok & Ea & El) & _). exists t. split; [exact Hok|].
  rewrite <- (read_back valid norm norm_valid norm_idem t m Hok).
  unfold read_trackers. rewrite Ea, El. reflexivity.
Qed.

Lemma make_urls_seeds us l : make_urls valid norm [] us = Ok l -> urls_ok l.
Proof. intros H. destruct (make_urls_spec valid norm norm_valid norm_idem _ _ _ H) as (A & B & _). split; assumption. Qed.

Lemma Inv_write_seeds k l m : urls_ok l -> Inv m -> Inv (write_seeds k l m).
Proof.
  intros Hl (Ht & Hw & Hh). destruct k; unfold write_seeds; (split; [exact Ht|]); cbn;
    (destruct l as [|u l']; [split; [exact I || exact Hw|exact Hh || exact I]|]).
  - split; [split; [discriminate|exact Hl]|exact Hh].
  - split; [exact Hw|split; [discriminate|exact Hl]].
Qed.

Lemma seeds_items_ok k m : Inv m -> make_urls valid norm [] (get_seeds k m) = Ok (get_seeds k m) /\ urls_ok (get_seeds k m).
Proof.
  intros (_ & Hw & Hh).
  assert (urls_ok (get_seeds k m)) as Hok.
  { unfold get_seeds. destruct k; [destruct (md_web m); [apply Hw|split; constructor]|destruct (md_http m); [apply Hh|split; constructor]]. }
  split; [|exact Hok]. destruct Hok as (Hnd & Hst). unfold make_urls.
  rewrite (coerce_all_stored valid norm _ Hst). cbn [bind].
  rewrite (dedup_into_fresh [] (get_seeds k m) []); [reflexivity|exact Hnd|intros x _ []].
Qed.

Theorem step_inv m o : Inv m -> Inv (snd (step valid norm m o)).
Proof.
  intros HI. destruct o as [ts|urls|i urls|i urls|i| |ts|ti lo|k us|k lo]; cbn [step].
  - (* TSet *)
    destruct (tr_build valid norm [] ts) as [t|e] eqn:Eb; cbn [snd]; [|exact HI].
    apply Inv_write_trackers; [|exact HI]. eapply (tr_build_ok valid norm norm_valid norm_idem); [apply tiers_ok_nil|exact Eb].
  - destruct (Inv_read m HI) as (t & Hok & ->).
    destruct (tr_insert valid norm t (Z.of_nat (length t)) urls) as [t'|e] eqn:Ei; cbn [snd]; [|exact HI].
    apply Inv_write_trackers; [|exact HI]. eapply (tr_insert_ok valid norm norm_valid norm_idem); eauto.
  - destruct (Inv_read m HI) as (t & Hok & ->).
    destruct (tr_insert valid norm t i urls) as [t'|e] eqn:Ei; cbn [snd]; [|exact HI].
    apply Inv_write_trackers; [|exact HI]. eapply (tr_insert_ok valid norm norm_valid norm_idem); eauto.
  - (* TSetItem *)
    destruct (Inv_read m HI) as (t & Hok & ->).
    destruct (make_urls valid norm (flat t) urls) as [tier|e] eqn:Em; [|exact HI].
    destruct tier as [|u tier]; [apply Inv_write_trackers; assumption|].
    destruct (existsb (set_eqb (u :: tier)) t); [apply Inv_write_trackers; assumption|].
    destruct (py_index t i) as [k|] eqn:Ek; cbn [snd]; [|exact HI].
    apply Inv_write_trackers; [|exact HI].
    assert (k < length t)%nat as Hk.
    { unfold py_index in Ek. destruct ((_ <? 0) || (_ >=? _)) eqn:Eb in Ek; [discriminate|]. inversion Ek; subst. lia. }
    destruct (make_urls_spec valid norm norm_valid norm_idem _ _ _ Em) as (A & B & C).
    apply (tier_update_ok t k (u :: tier) Hok Hk). split; [exact A|].
    intros x Hx. split; [apply (proj1 (Forall_forall _ _) B x Hx)|right; apply C; exact Hx].
  - destruct (Inv_read m HI) as (t & Hok & ->).
    destruct (py_index t i) as [k|]; cbn [snd]; [|exact HI].
    apply Inv_write_trackers; [apply tiers_ok_del; exact Hok|exact HI].
  - destruct (Inv_read m HI) as (t & Hok & ->). apply Inv_write_trackers; [apply tiers_ok_nil|exact HI].
  - (* TExtend *)
    destruct (Inv_read m HI) as (t & Hok & ->).
    destruct (tr_extend valid norm t ts) as [r t'] eqn:Ee. cbn [snd].
    apply Inv_write_trackers; [|exact HI].
    clear HI. revert t Hok Ee. induction ts as [|x rest IH]; intros t Hok Ee; cbn [tr_extend] in Ee.
    + inversion Ee; subst. exact Hok.
    + destruct (tr_insert valid norm t (Z.of_nat (length t)) x) as [t2|e] eqn:Ei.
      * eapply IH; [|exact Ee]. eapply (tr_insert_ok valid norm norm_valid norm_idem); eauto.
      * inversion Ee; subst. exact Hok.
  - (* an operation on one tier *)
    destruct (Inv_read m HI) as (t & Hok & ->).
    destruct (py_index t ti) as [k|] eqn:Ek; [|exact HI].
    assert (k < length t)%nat as Hk.
    { unfold py_index in Ek. destruct ((_ <? 0) || (_ >=? _)) eqn:Eb in Ek; [discriminate|]. inversion Ek; subst. lia. }
    destruct (l_apply valid norm (flat t) (nth k t []) lo) as [r tier'] eqn:El.
    assert (NoDup (nth k t []) /\ Forall stored (nth k t [])) as [Hnd Hst].
    { destruct Hok as (Hnd & _ & Hst). rewrite (nth_split_at t k Hk) in Hnd, Hst.
      unfold flat in Hnd, Hst. rewrite concat_app in Hnd, Hst. cbn [concat] in Hnd, Hst.
      split.
      - apply NoDup_app_remove_l in Hnd. apply NoDup_app_remove_r in Hnd. exact Hnd.
      - apply Forall_app in Hst as [_ Hst]. apply Forall_app in Hst as [Hst _]. exact Hst. }
    pose proof (l_apply_ok (flat t) (nth k t []) lo r tier' Hnd Hst (fun _ _ => or_intror I) El) as Hup.
    pose proof (tier_update_ok t k tier' Hok Hk Hup) as Hnew.
    destruct r as [[]|e]; cbn [snd]; [apply Inv_write_trackers; assumption|].
    destruct e; try exact HI; try (apply Inv_write_trackers; assumption).
    destruct lo; try exact HI. apply Inv_write_trackers; assumption.
  - (* SSet *)
    destruct (make_urls valid norm [] us) as [l|e] eqn:Em; cbn [snd]; [|exact HI].
    apply Inv_write_seeds; [eapply make_urls_seeds; eauto|exact HI].
  - (* SOp *)
    destruct (seeds_items_ok k m HI) as (-> & (Hnd & Hst)).
    destruct (l_apply valid norm [] (get_seeds k m) lo) as [r items'] eqn:El.
    pose proof (l_apply_ok [] (get_seeds k m) lo r items' Hnd Hst (fun _ _ => or_intror I) El) as (Und & Uel).
    assert (urls_ok items') as Hu.
    { split; [exact Und|]. apply Forall_forall. intros x Hx. apply (Uel x Hx). }
    destruct r as [[]|e]; cbn [snd]; [apply Inv_write_seeds; assumption|].
    destruct e; try exact HI; try (apply Inv_write_seeds; assumption).
    destruct lo; try exact HI. apply Inv_write_seeds; assumption.
Qed.

(* after every history *)
Fixpoint final (m : mdstate) (ops : list top) : mdstate :=
  match ops with [] => m | o :: r => final (snd (step valid norm m o)) r end.

Theorem history_inv ops : forall m, Inv m -> Inv (final m ops).
Proof. induction ops as [|o r IH]; intros m H; [exact H|]. cbn [final]. apply IH. apply step_inv. exact H. Qed.

(* an invalid URL is rejected with the URL error and the metainfo is untouched *)
Theorem append_invalid_rejected m u :
  valid u = false ->
  step valid norm m (SOp Web (LAppend u)) = (Err DURL, m) \/
  exists e, fst (step valid norm m (SOp Web (LAppend u))) = Err e /\ snd (step valid norm m (SOp Web (LAppend u))) = m.
Proof.
  intros Hv. cbn [step]. destruct (make_urls valid norm [] (get_seeds Web m)) as [items|e]; [|right; eexists; split; reflexivity].
  cbn [l_apply]. rewrite Hv. left. reflexivity.
Qed.

End ML.
