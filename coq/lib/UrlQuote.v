(* UrlQuote.v -- urllib.parse.quote_plus / unquote_plus on byte strings (text is
   represented by its UTF-8 bytes) and the query splitting of parse_qs.
   Executable definitions only. *)
From Torf Require Import Base Sexp.
Open Scope Z_scope.

(* quote_plus safe set: ASCII letters, digits and _.-~ ; space becomes '+' *)
Definition is_unreserved (c : N) : bool :=
  (((48 <=? c) && (c <=? 57)) || ((65 <=? c) && (c <=? 90)) || ((97 <=? c) && (c <=? 122))
   || (c =? 95) || (c =? 46) || (c =? 45) || (c =? 126))%N.

Definition hexdig_upper (n : N) : N := if (n <? 10)%N then (48 + n)%N else (55 + n)%N.

Fixpoint quote_plus (b : bytes) : bytes :=
  match b with
  | [] => []
  | c :: r =>
      if is_unreserved c then c :: quote_plus r
      else if (c =? 32)%N then 43%N :: quote_plus r
      else 37%N :: hexdig_upper (c / 16)%N :: hexdig_upper (c mod 16)%N :: quote_plus r
  end.

Definition unhex_any (c : N) : option N :=
  if ((48 <=? c) && (c <=? 57))%N then Some (c - 48)%N
  else if ((97 <=? c) && (c <=? 102))%N then Some (c - 87)%N
  else if ((65 <=? c) && (c <=? 70))%N then Some (c - 55)%N
  else None.

(* unquote_plus: '+' -> space, %XX -> byte, malformed escapes are kept literally *)
Fixpoint unquote_plus_fuel (fuel : nat) (b : bytes) : bytes :=
  match fuel with
  | O => []
  | S f =>
      match b with
      | [] => []
      | c :: r =>
          if (c =? 43)%N then 32%N :: unquote_plus_fuel f r
          else if (c =? 37)%N then
            match r with
            | h :: l :: r2 =>
                match unhex_any h, unhex_any l with
                | Some x, Some y => (x * 16 + y)%N :: unquote_plus_fuel f r2
                | _, _ => 37%N :: unquote_plus_fuel f r
                end
            | _ => 37%N :: unquote_plus_fuel f r
            end
          else c :: unquote_plus_fuel f r
      end
  end.

Definition unquote_plus (b : bytes) : bytes := unquote_plus_fuel (S (length b)) b.

(* split on a separator byte *)
Fixpoint split_on (sep : N) (b : bytes) (cur : bytes) : list bytes :=
  match b with
  | [] => [rev cur]
  | c :: r => if (c =? sep)%N then rev cur :: split_on sep r [] else split_on sep r (c :: cur)
  end.

(* first '=' *)
Fixpoint cut_eq (b : bytes) (k : bytes) : option (bytes * bytes) :=
  match b with
  | [] => None
  | c :: r => if (c =? 61)%N then Some (rev k, r) else cut_eq r (c :: k)
  end.

(* parse_qs(query): pairs in order; fields without '=' and blank values are dropped *)
Definition parse_qsl (q : bytes) : list (bytes * bytes) :=
  flat_map (fun field =>
              match cut_eq field [] with
              | Some (k, v) => match v with [] => [] | _ => [(unquote_plus k, unquote_plus v)] end
              | None => []
              end) (split_on 38%N q []).

Fixpoint join_with (sep : N) (l : list bytes) : bytes :=
  match l with
  | [] => []
  | [x] => x
  | x :: r => x ++ sep :: join_with sep r
  end.
