(* Sexp.v -- generic S-expression wire format used between the Python harness
   and the extracted model.  The OCaml driver only tokenises; all decoding of
   integers / hex is done here, in Gallina. *)
From Coq Require Import String Ascii.
From Torf Require Import Base.
Open Scope Z_scope.

Inductive sexp : Type :=
| A (s : list N)
| L (l : list sexp).

Definition sym (s : string) : list N :=
  List.map (fun a => N_of_ascii a) (list_ascii_of_string s).

Fixpoint list_eqb {X} (eqb : X -> X -> bool) (a b : list X) : bool :=
  match a, b with
  | [], [] => true
  | x :: a', y :: b' => eqb x y && list_eqb eqb a' b'
  | _, _ => false
  end.

Definition atom_is (s : string) (a : list N) : bool := list_eqb N.eqb (sym s) a.

Definition Sy (s : string) : sexp := A (sym s).

(* ---- decimal integers ---- *)
(* binary -> decimal by repeated doubling of a little-endian digit list (linear in
   bits x digits; Z.div on big numbers is far too slow in extracted code) *)
Fixpoint dbl (l : list N) (c : N) : list N :=
  match l with
  | [] => if (c =? 0)%N then [] else [c]
  | d :: r => let x := (2 * d + c)%N in
              if (x <? 10)%N then x :: dbl r 0 else (x - 10)%N :: dbl r 1
  end.

Fixpoint pos_dec_le (p : positive) : list N :=
  match p with
  | xH => [1%N]
  | xO q => dbl (pos_dec_le q) 0
  | xI q => dbl (pos_dec_le q) 1
  end.

Definition digits_of_nonneg (n : Z) : list N :=
  match n with
  | Zpos p => rev (List.map (fun d => (48 + d)%N) (pos_dec_le p))
  | _ => [48%N]
  end.

Definition dec_of_Z (z : Z) : list N :=
  if z <? 0 then 45%N :: digits_of_nonneg (- z) else digits_of_nonneg z.

Definition ZA (z : Z) : sexp := A (dec_of_Z z).

Fixpoint parse_digits (l : list N) (acc : Z) : option Z :=
  match l with
  | [] => Some acc
  | c :: r =>
      if ((48 <=? c) && (c <=? 57))%N
      then parse_digits r (acc * 10 + Z.of_N (c - 48))
      else None
  end.

Definition Z_of_dec (l : list N) : option Z :=
  match l with
  | [] => None
  | 45%N :: r =>
      match r with [] => None | _ =>
        match parse_digits r 0 with Some z => Some (- z) | None => None end end
  | _ => parse_digits l 0
  end.

(* ---- hex bytes: token "x" followed by lowercase hex digits ---- *)
Definition hexdig (n : N) : N :=
  if (n <? 10)%N then (48 + n)%N else (87 + n)%N.

Fixpoint hex_of_bytes (b : list N) : list N :=
  match b with
  | [] => []
  | c :: r => hexdig (c / 16)%N :: hexdig (c mod 16)%N :: hex_of_bytes r
  end.

Definition HA (b : list N) : sexp := A (120%N :: hex_of_bytes b).

Definition unhexdig (c : N) : option N :=
  if ((48 <=? c) && (c <=? 57))%N then Some (c - 48)%N
  else if ((97 <=? c) && (c <=? 102))%N then Some (c - 87)%N
  else None.

Fixpoint bytes_of_hex (l : list N) : option (list N) :=
  match l with
  | [] => Some []
  | a :: b :: r =>
      match unhexdig a, unhexdig b, bytes_of_hex r with
      | Some x, Some y, Some rest => Some ((x * 16 + y)%N :: rest)
      | _, _, _ => None
      end
  | _ => None
  end.

Definition bytes_of_atom (l : list N) : option (list N) :=
  match l with
  | 120%N :: r => bytes_of_hex r
  | _ => None
  end.

(* ---- decoding helpers (option monad) ---- *)
Definition getZ (s : sexp) : option Z :=
  match s with A a => Z_of_dec a | L _ => None end.

Definition getB (s : sexp) : option (list N) :=
  match s with A a => bytes_of_atom a | L _ => None end.

Definition getBool (s : sexp) : option bool :=
  match s with
  | A a => if atom_is "t" a then Some true else if atom_is "f" a then Some false else None
  | L _ => None
  end.

Fixpoint optmap {X Y} (f : X -> option Y) (l : list X) : option (list Y) :=
  match l with
  | [] => Some []
  | x :: r => match f x, optmap f r with
              | Some y, Some ys => Some (y :: ys)
              | _, _ => None end
  end.

Definition getList {Y} (f : sexp -> option Y) (s : sexp) : option (list Y) :=
  match s with L l => optmap f l | A _ => None end.

Definition getZs := getList getZ.

Definition getPair {X Y} (f : sexp -> option X) (g : sexp -> option Y) (s : sexp)
  : option (X * Y) :=
  match s with
  | L [a; b] => match f a, g b with Some x, Some y => Some (x, y) | _, _ => None end
  | _ => None
  end.

Definition BA (b : bool) : sexp := if b then Sy "t" else Sy "f".
Definition ZL (l : list Z) : sexp := L (List.map ZA l).

Definition exn_sexp (e : exn) : sexp :=
  match e with
  | DRead n => L [Sy "DRead"; ZA n]
  | DFileSize => Sy "DFileSize" | DContent => Sy "DContent" | DIsDir => Sy "DIsDir"
  | DNotDir => Sy "DNotDir" | DMetainfo => Sy "DMetainfo" | DBdecode => Sy "DBdecode"
  | DMagnet => Sy "DMagnet" | DURL => Sy "DURL" | DPieceSize => Sy "DPieceSize"
  | DPath => Sy "DPath" | DCommonPath => Sy "DCommonPath" | DWrite => Sy "DWrite"
  | DValue => Sy "DValue"
  | IValue => Sy "IValue" | IIndex => Sy "IIndex" | IKey => Sy "IKey" | IType => Sy "IType"
  | IAssert => Sy "IAssert" | IOverflow => Sy "IOverflow" | IRecursion => Sy "IRecursion"
  | IRuntime => Sy "IRuntime" | IZeroDiv => Sy "IZeroDiv" | IMemory => Sy "IMemory"
  | IAttr => Sy "IAttr" | IBinascii => Sy "IBinascii" | IUnicode => Sy "IUnicode"
  | IOther => Sy "IOther"
  end.

Definition res_sexp {X} (f : X -> sexp) (r : res X) : sexp :=
  match r with
  | Ok x => L [Sy "ok"; f x]
  | Err e => L [Sy "err"; exn_sexp e]
  end.

Definition bad_request : sexp := L [Sy "bad-request"].
