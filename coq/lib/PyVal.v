(* PyVal.v -- the Python values that can sit in a metainfo mapping, with the
   isinstance relations torf tests.  Text (str) is represented by its UTF-8
   bytes (strings containing lone surrogates are outside the model).
   Executable definitions only. *)
From Torf Require Import Base Bencode.
Open Scope Z_scope.

(* floats: integral value, value z + 1/2, infinities, NaN (enough for int(f),
   comparisons with 0 and ceil(f / L) on the values the harness uses) *)
Inductive pfloat := FInt (z : Z) | FHalf (z : Z) | FInf (neg : bool) | FNaN.

Inductive pyval : Type :=
| PNone
| PBool (b : bool)
| PInt (z : Z)
| PFloat (f : pfloat)
| PStr (s : bytes)            (* text, as UTF-8 *)
| PBytes (b : bytes)
| PList (l : list pyval)
| PTuple (l : list pyval)
| PDict (kvs : list (pyval * pyval))   (* insertion order; keys pairwise unequal *)
| PSet (l : list pyval)                (* iteration order as given *)
| PDatetime (ts : Z)                   (* naive datetime, whole seconds, as POSIX timestamp (TZ=UTC) *)
| POther.                              (* anything else (object(), generator, ...) *)

Inductive ptype := TDict | TStr | TBytes | TInt | TBool | TFloat | TDatetime
                 | TIterable | TMapping | TSequence | TCollection.

Definition isinstance (v : pyval) (t : ptype) : bool :=
  match t, v with
  | TDict, PDict _ => true
  | TMapping, PDict _ => true
  | TStr, PStr _ => true
  | TBytes, PBytes _ => true
  | TInt, PInt _ => true
  | TInt, PBool _ => true            (* bool is a subclass of int *)
  | TBool, PBool _ => true
  | TFloat, PFloat _ => true
  | TDatetime, PDatetime _ => true
  | TIterable, (PBytes _ | PList _ | PTuple _ | PDict _ | PSet _) => true   (* utils.Iterable: iterable and not str *)
  | TSequence, (PStr _ | PBytes _ | PList _ | PTuple _) => true
  | TCollection, (PStr _ | PBytes _ | PList _ | PTuple _ | PDict _ | PSet _) => true
  | _, _ => false
  end.

Definition isinstance_any (v : pyval) (ts : list ptype) : bool := existsb (isinstance v) ts.

(* Python == on the values used as dict keys / compared by the model *)
Fixpoint py_eqb (a b : pyval) : bool :=
  match a, b with
  | PNone, PNone => true
  | PStr x, PStr y => bytes_eqb x y
  | PBytes x, PBytes y => bytes_eqb x y
  | PInt x, PInt y => x =? y
  | PBool x, PBool y => Bool.eqb x y
  | PInt x, PBool y | PBool y, PInt x => x =? (if y then 1 else 0)
  | PFloat (FInt x), PInt y | PInt y, PFloat (FInt x) => x =? y
  | PFloat (FInt x), PFloat (FInt y) => x =? y
  | PFloat (FHalf x), PFloat (FHalf y) => x =? y
  | PDatetime x, PDatetime y => x =? y
  | _, _ => false
  end.

Fixpoint dict_get (kvs : list (pyval * pyval)) (k : pyval) : option pyval :=
  match kvs with
  | [] => None
  | (k', v) :: r => if py_eqb k' k then Some v else dict_get r k
  end.

Fixpoint dict_put (kvs : list (pyval * pyval)) (k v : pyval) : list (pyval * pyval) :=
  match kvs with
  | [] => [(k, v)]
  | (k', v') :: r => if py_eqb k' k then (k', v) :: r else (k', v') :: dict_put r k v
  end.

Fixpoint dict_del (kvs : list (pyval * pyval)) (k : pyval) : list (pyval * pyval) :=
  match kvs with
  | [] => []
  | (k', v') :: r => if py_eqb k' k then r else (k', v') :: dict_del r k
  end.

Definition pstr_of_string (s : list N) : pyval := PStr s.

(* ---- strict UTF-8 validity as CPython's decoder (no surrogates, no overlongs, <= U+10FFFF) ---- *)
Definition cont (c : N) : bool := ((128 <=? c) && (c <=? 191))%N.

Fixpoint utf8_valid_fuel (fuel : nat) (s : bytes) : bool :=
  match fuel with
  | O => match s with [] => true | _ => false end
  | S f =>
      match s with
      | [] => true
      | c :: r =>
          if (c <? 128)%N then utf8_valid_fuel f r
          else if ((194 <=? c) && (c <=? 223))%N then
            match r with c1 :: r1 => cont c1 && utf8_valid_fuel f r1 | _ => false end
          else if (c =? 224)%N then
            match r with c1 :: c2 :: r2 => ((160 <=? c1) && (c1 <=? 191))%N && cont c2 && utf8_valid_fuel f r2 | _ => false end
          else if (((225 <=? c) && (c <=? 236)) || ((238 <=? c) && (c <=? 239)))%N then
            match r with c1 :: c2 :: r2 => cont c1 && cont c2 && utf8_valid_fuel f r2 | _ => false end
          else if (c =? 237)%N then
            match r with c1 :: c2 :: r2 => ((128 <=? c1) && (c1 <=? 159))%N && cont c2 && utf8_valid_fuel f r2 | _ => false end
          else if (c =? 240)%N then
            match r with c1 :: c2 :: c3 :: r3 => ((144 <=? c1) && (c1 <=? 191))%N && cont c2 && cont c3 && utf8_valid_fuel f r3 | _ => false end
          else if ((241 <=? c) && (c <=? 243))%N then
            match r with c1 :: c2 :: c3 :: r3 => cont c1 && cont c2 && cont c3 && utf8_valid_fuel f r3 | _ => false end
          else if (c =? 244)%N then
            match r with c1 :: c2 :: c3 :: r3 => ((128 <=? c1) && (c1 <=? 143))%N && cont c2 && cont c3 && utf8_valid_fuel f r3 | _ => false end
          else false
      end
  end.

Definition utf8_valid (s : bytes) : bool := utf8_valid_fuel (length s) s.

(* repr()/str() of a value fails (ValueError) when it contains an int beyond the digit limit *)
Fixpoint repr_fails (v : pyval) : bool :=
  match v with
  | PInt z => Z.abs z >=? huge_bound
  | PList l | PTuple l | PSet l => existsb repr_fails l
  | PDict kvs => existsb (fun kv => repr_fails (fst kv) || repr_fails (snd kv)) kvs
  | _ => false
  end.
