(* Base.v -- shared definitions for all models: results, exception kinds.
   Executable definitions only (no proofs here). *)
From Coq Require Export ZArith List Bool NArith.
Export ListNotations.
Open Scope Z_scope.

(* Exceptions are values.  [D*] = documented torf errors, [I*] = internal
   (builtin) Python exceptions that must never escape according to the
   properties. *)
Inductive exn : Type :=
| DRead (errno : Z)      (* torf.ReadError, errno (0 = None) *)
| DFileSize              (* torf.VerifyFileSizeError *)
| DContent               (* torf.VerifyContentError *)
| DIsDir                 (* torf.VerifyIsDirectoryError *)
| DNotDir                (* torf.VerifyNotDirectoryError *)
| DMetainfo              (* torf.MetainfoError *)
| DBdecode               (* torf.BdecodeError *)
| DMagnet                (* torf.MagnetError *)
| DURL                   (* torf.URLError *)
| DPieceSize             (* torf.PieceSizeError *)
| DPath                  (* torf.PathError *)
| DCommonPath            (* torf.CommonPathError *)
| DWrite                 (* torf.WriteError *)
| DValue                 (* builtin ValueError where the API documents it *)
| IValue | IIndex | IKey | IType | IAssert | IOverflow | IRecursion
| IRuntime | IZeroDiv | IMemory | IAttr | IBinascii | IUnicode | IOther.

Definition is_documented (e : exn) : bool :=
  match e with
  | DRead _ | DFileSize | DContent | DIsDir | DNotDir | DMetainfo | DBdecode
  | DMagnet | DURL | DPieceSize | DPath | DCommonPath | DWrite | DValue => true
  | _ => false
  end.

Inductive res (A : Type) : Type :=
| Ok (a : A)
| Err (e : exn).
Arguments Ok {A} a.
Arguments Err {A} e.

Definition bind {A B} (r : res A) (f : A -> res B) : res B :=
  match r with Ok a => f a | Err e => Err e end.

Notation "'do' x <- r ; k" := (bind r (fun x => k))
  (at level 200, x pattern, r at level 100, k at level 200, right associativity).

Definition res_map {A B} (f : A -> B) (r : res A) : res B :=
  match r with Ok a => Ok (f a) | Err e => Err e end.

Definition is_ok {A} (r : res A) : bool :=
  match r with Ok _ => true | Err _ => false end.

(* ceil division for positive divisor, as an integer spec *)
Definition cdiv (a b : Z) : Z := (a + b - 1) / b.

Fixpoint sumZ (l : list Z) : Z :=
  match l with [] => 0 | x :: r => x + sumZ r end.

(* bytes *)
Definition byte := N.
Definition bytes := list N.

Fixpoint mapM {A B} (f : A -> res B) (l : list A) : res (list B) :=
  match l with
  | [] => Ok []
  | x :: r => do y <- f x; do ys <- mapM f r; Ok (y :: ys)
  end.

Fixpoint bytes_eqb (a b : bytes) : bool :=
  match a, b with
  | [], [] => true
  | x :: a', y :: b' => (x =? y)%N && bytes_eqb a' b'
  | _, _ => false
  end.
