(* Regex.v -- the small regular-expression fragment torf uses (classes of code
   point ranges, concatenation, alternation, exact repetition, groups, ^, $, \Z),
   with the semantics of CPython's re for a match attempt at position 0.
   Strings are lists of code points.  Executable definitions only. *)
From Torf Require Import Base.
Open Scope Z_scope.

Inductive re : Type :=
| RCls (ranges : list (Z * Z))
| RSeq (l : list re)
| RAlt (l : list re)
| RRep (n : nat) (r : re)
| RGroup (r : re)
| RBol                 (* ^  (the attempt starts at position 0) *)
| REnd                 (* $  : end of string, or just before a final newline *)
| REndZ.               (* \Z : end of string *)

Definition in_ranges (rs : list (Z * Z)) (c : Z) : bool :=
  existsb (fun r => (fst r <=? c) && (c <=? snd r)) rs.

(* all suffixes that can remain after matching r at the start of s *)
Fixpoint rmatch (r : re) (s : list Z) {struct r} : list (list Z) :=
  match r with
  | RCls rs => match s with c :: t => if in_ranges rs c then [t] else [] | [] => [] end
  | RSeq l => (fix seq (l : list re) (ss : list (list Z)) : list (list Z) :=
                 match l with
                 | [] => ss
                 | x :: rest => seq rest (flat_map (rmatch x) ss)
                 end) l [s]
  | RAlt l => (fix alt (l : list re) : list (list Z) :=
                 match l with
                 | [] => []
                 | x :: rest => rmatch x s ++ alt rest
                 end) l
  | RRep n x => (fix rep (n : nat) (ss : list (list Z)) : list (list Z) :=
                   match n with
                   | O => ss
                   | S k => rep k (flat_map (rmatch x) ss)
                   end) n [s]
  | RGroup x => rmatch x s
  | RBol => [s]
  | REnd => match s with [] => [s] | [10] => [s] | _ => [] end
  | REndZ => match s with [] => [s] | _ => [] end
  end.

Inductive rmethod := MMatch | MFullmatch.

Definition accepts (m : rmethod) (r : re) (s : list Z) : bool :=
  match m with
  | MMatch => match rmatch r s with [] => false | _ => true end
  | MFullmatch => existsb (fun t => match t with [] => true | _ => false end) (rmatch r s)
  end.
