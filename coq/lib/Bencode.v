(* Bencode.v -- bencoded values, the encoder of flatbencode.encode and a faithful
   model of the stack machine of flatbencode.decode.  Executable definitions only. *)
From Torf Require Import Base Sexp.
Open Scope Z_scope.

Inductive bval : Type :=
| BInt (z : Z)
| BStr (b : bytes)
| BList (l : list bval)
| BDict (kvs : list (bytes * bval)).   (* insertion order, keys unique *)

(* ---- byte-string order (Python bytes comparison) ---- *)
Fixpoint bytes_ltb (a b : bytes) : bool :=
  match a, b with
  | [], [] => false
  | [], _ :: _ => true
  | _ :: _, [] => false
  | x :: a', y :: b' => if (x <? y)%N then true else if (y <? x)%N then false else bytes_ltb a' b'
  end.

Fixpoint insert_kv {V} (k : bytes) (v : V) (l : list (bytes * V)) : list (bytes * V) :=
  match l with
  | [] => [(k, v)]
  | (k', v') :: r => if bytes_ltb k k' then (k, v) :: l else (k', v') :: insert_kv k v r
  end.

Definition sort_kvs {V} (l : list (bytes * V)) : list (bytes * V) :=
  fold_right (fun kv acc => insert_kv (fst kv) (snd kv) acc) [] l.

(* ---- encoder ---- *)
Definition max_str_digits : Z := 4300.   (* CPython int<->str digit limit *)

Definition benc_int (z : Z) : bytes := (105%N :: dec_of_Z z) ++ [101%N].          (* i...e *)
Definition benc_str (b : bytes) : bytes := dec_of_Z (Z.of_nat (length b)) ++ 58%N :: b.  (* len:bytes *)

Fixpoint benc (v : bval) : bytes :=
  match v with
  | BInt z => benc_int z
  | BStr b => benc_str b
  | BList l => (108%N :: concat (map benc l)) ++ [101%N]
  | BDict kvs =>
      (100%N :: concat (map (fun kv => benc_str (fst kv) ++ snd kv)
                            (sort_kvs (map (fun kv => (fst kv, benc (snd kv))) kvs)))) ++ [101%N]
  end.

(* str(int) fails beyond the digit limit: the only way flatbencode.encode can fail
   on a value built from bytes/int/list/dict-with-bytes-keys *)
Definition huge_bound : Z := 10 ^ max_str_digits.   (* smallest int with more than 4300 digits *)

Fixpoint has_huge_int (v : bval) : bool :=
  match v with
  | BInt z => Z.abs z >=? huge_bound
  | BStr _ => false
  | BList l => existsb has_huge_int l
  | BDict kvs => existsb (fun kv => has_huge_int (snd kv)) kvs
  end.

Definition encode (v : bval) : res bytes :=
  if has_huge_int v then Err IValue else Ok (benc v).

(* ---- decoder: the stack machine of flatbencode.decode ----
   Err DBdecode = flatbencode.DecodingError, Err IValue = bare ValueError from int(),
   Err IOverflow = OverflowError from buf.read(n) *)
Inductive sitem : Type := SVal (v : bval) | SList | SDict.

Definition is_digit (c : N) : bool := ((48 <=? c) && (c <=? 57))%N.

(* _read_integer: after 'i'.  Returns (value, rest). *)
Fixpoint read_digits_until (stop : N) (s : bytes) (acc : bytes) : option (bytes * bytes) :=
  match s with
  | [] => None                                  (* EOF before terminator / non-digit b'' *)
  | c :: r => if (c =? stop)%N then Some (rev acc, r)
              else if is_digit c then read_digits_until stop r (c :: acc) else None
  end.

Definition digits_value (ds : bytes) : Z :=
  fold_left (fun acc c => acc * 10 + Z.of_N (c - 48)) ds 0.

Definition read_integer (s : bytes) : res (Z * bytes) :=
  let '(neg, s1) := match s with
                    | c :: r => if (c =? 45)%N then (true, r) else (false, s)
                    | [] => (false, s) end in
  match read_digits_until 101%N s1 [] with
  | None => Err DBdecode
  | Some (ds, rest) =>
      match ds with
      | [] => Err IValue                                     (* int(b'') -> ValueError *)
      | d0 :: dr =>
          if (d0 =? 48)%N && negb (match dr with [] => true | _ => false end) then Err DBdecode
          else if Z.of_nat (length ds) >? max_str_digits then Err IValue     (* ValueError: digit limit *)
          else
            let n := digits_value ds in
            if (n =? 0) && neg then Err DBdecode
            else Ok (if neg then - n else n, rest)
      end
  end.

(* _read_string: [c] is the first char already consumed *)
Definition read_string (c : N) (s : bytes) : res (bytes * bytes) :=
  match read_digits_until 58%N (c :: s) [] with
  | None => Err DBdecode
  | Some (ds, rest) =>
      match ds with
      | [] => Err IValue                                     (* int(b'') -> ValueError *)
      | _ =>
          if Z.of_nat (length ds) >? max_str_digits then Err IValue
          else
            let n := digits_value ds in
            if n >? Z.of_nat (length rest) then
              (* buf.read(n) with n beyond the input: OverflowError for n >= 2^63,
                 otherwise a short read (or MemoryError for absurd n, see DESIGN) *)
              if n >=? 2 ^ 63 then Err IOverflow else Err DBdecode
            else Ok (firstn (Z.to_nat n) rest, skipn (Z.to_nat n) rest)
      end
  end.

(* pop until a starter; acc collects popped values (last pushed first) *)
Fixpoint pop_to_starter (st : list sitem) (acc : list bval) : option (bool * list bval * list sitem) :=
  match st with
  | [] => None
  | SList :: r => Some (false, acc, r)
  | SDict :: r => Some (true, acc, r)
  | SVal v :: r => pop_to_starter r (v :: acc)
  end.

Fixpoint dict_set (k : bytes) (v : bval) (l : list (bytes * bval)) : list (bytes * bval) :=
  match l with
  | [] => [(k, v)]
  | (k', v') :: r => if bytes_eqb k' k then (k', v) :: r else (k', v') :: dict_set k v r
  end.

(* list_to_dict: pairs of consecutive items in original order; a dangling last item is
   dropped by zip; every key must be bytes; later duplicates overwrite (OrderedDict) *)
Fixpoint pairs_to_dict (l : list bval) (acc : list (bytes * bval)) : option (list (bytes * bval)) :=
  match l with
  | BStr k :: v :: r => pairs_to_dict r (dict_set k v acc)
  | _ :: _ :: _ => None
  | _ => Some acc
  end.

(* NB: the stack is kept with the most recently pushed item FIRST; pop_to_starter
   therefore returns [acc] in original (push) order. *)
Fixpoint dec_loop (fuel : nat) (s : bytes) (st : list sitem) : res bval :=
  match fuel with
  | O => Err DBdecode
  | S fuel' =>
      match s with
      | [] => Err DBdecode
      | c :: r =>
          let finish (elem : bval) (rest : bytes) : res bval :=
            match st with
            | [] => match rest with [] => Ok elem | _ => Err DBdecode end
            | _ => dec_loop fuel' rest (SVal elem :: st)
            end in
          if (c =? 101)%N then          (* e *)
            match pop_to_starter st [] with
            | None => Err DBdecode
            | Some (isdict, items, st') =>
                let elem := if isdict
                            then match pairs_to_dict items [] with
                                 | Some kvs => Some (BDict kvs) | None => None end
                            else Some (BList items) in
                match elem with
                | None => Err DBdecode
                | Some e =>
                    match st' with
                    | [] => match r with [] => Ok e | _ => Err DBdecode end
                    | _ => dec_loop fuel' r (SVal e :: st')
                    end
                end
            end
          else if (c =? 105)%N then     (* i *)
            match read_integer r with
            | Err e => Err e
            | Ok (z, rest) => finish (BInt z) rest
            end
          else if (c =? 100)%N then dec_loop fuel' r (SDict :: st)
          else if (c =? 108)%N then dec_loop fuel' r (SList :: st)
          else
            match read_string c r with
            | Err e => Err e
            | Ok (b, rest) => finish (BStr b) rest
            end
      end
  end.

Definition bdec (s : bytes) : res bval := dec_loop (S (length s)) s [].

